"""C07 - BER primitives agree with an arithmetic oracle in both directions.

Functions driven directly: ASN1Writer.write_integer/enumerated/boolean/octet_string, push_sequence/
push_set, ASN1Reader.read_*, peek_header, get_remaining_data and (through them) _pack_asn1,
_pack_asn1_integer, _pack_asn1_octet_number, _read_asn1_header, _read_asn1_integer,
_unpack_asn1_octet_number, _validate_tag.  The specifications are arithmetic (two's complement,
base 128 / base 256 positional values) written over the same symbolic variables.
"""
PROPERTY = "C07"
LEVEL = "model_checking"

OPTIONS = {
    "quick": {"max_paths": 60000, "unit_budget_s": 900},
    "thorough": {"max_paths": 400000, "unit_budget_s": 3000},
}

THRESH = [0, 1, 2, 126, 127, 128, 129, 255, 256, 257, 65535, 65536]

BOUNDS = {
    "quick": {
        "integer_value": "|v| < 2^72 (every value symbolic)",
        "reader_content_octets": "1..9 octets, every octet symbolic",
        "tag": "class 0..3 symbolic, constructed symbolic, number symbolic < 2^28",
        "content_length": THRESH,
        "header_bytes": "every byte string of length <= 5 through _read_asn1_header vs reference",
        "nesting": "sequence/set nesting depth <= 3, symbolic leaf content <= 2 octets",
    },
    "thorough": {
        "integer_value": "|v| < 2^136",
        "reader_content_octets": "1..17 octets, every octet symbolic",
        "tag": "class 0..3 symbolic, constructed symbolic, number symbolic < 2^35",
        "content_length": THRESH + [16777215, 16777216],
        "header_bytes": "every byte string of length <= 7 through _read_asn1_header vs reference",
        "nesting": "sequence/set nesting depth <= 4",
    },
}
OUTSIDE = [
    "integers of more than 17 content octets",
    "content lengths other than the listed thresholds above 257 (the length arithmetic is covered symbolically on the reader side for every length octet value within the header-bytes bound)",
    "UNIVERSAL tag numbers outside TypeTagNumber (the reader documents the enum as its result type)",
]
ASSUMPTIONS = [
    "z3 integer arithmetic models Python int exactly (unbounded)",
    "SX proxies model bytes/bytearray/memoryview semantics (validated per path against the real package)",
]
EXPLANATION = "bounded symbolic execution of the real asn1 module; each obligation is a z3 validity query over all values of the symbolic fields"

LIB_EXC = ("ValueError", "NotEnougData")


def units(tier):
    K = 9 if tier == "quick" else 17
    us = []
    us.append({"name": f"int_write_K{K}", "shape": {"kind": "int_write", "K": K, "enum": False}})
    us.append({"name": f"enum_write_K{K}", "shape": {"kind": "int_write", "K": K, "enum": True}})
    for n in range(1, K + 1):
        us.append({"name": f"int_read_n{n}", "shape": {"kind": "int_read", "n": n, "enum": False}})
    for n in (1, 2, 3, 4):
        us.append({"name": f"enum_read_n{n}", "shape": {"kind": "int_read", "n": n, "enum": True}})
    us.append({"name": f"int_roundtrip_K{K}", "shape": {"kind": "int_rt", "K": K}})
    lens = BOUNDS[tier]["content_length"]
    tagbits = 28 if tier == "quick" else 35
    for L in lens:
        us.append({"name": f"tlv_len{L}", "shape": {"kind": "tlv", "L": L, "tagbits": tagbits}})
    for n in range(0, (5 if tier == "quick" else 7) + 1):
        us.append({"name": f"header_bytes_n{n}", "shape": {"kind": "hdr", "n": n}})
    us.append({"name": "boolean", "shape": {"kind": "bool"}})
    for n in (0, 1, 2, 3):
        us.append({"name": f"bool_read_len{n}", "shape": {"kind": "bool_read", "n": n}})
    for depth in range(1, (3 if tier == "quick" else 4) + 1):
        for st in ("seq", "set", "mixed"):
            us.append({"name": f"nest_{st}_d{depth}", "shape": {"kind": "nest", "depth": depth, "st": st}})
    us.append({"name": "skip_value", "shape": {"kind": "skip"}})
    # the same octets handed to the reader as other buffer types (concrete): bytearray, memoryview
    # of unsigned / signed / char items - every octet is an octet whatever the view's item format
    us.append({"name": "buffer_kinds", "shape": {"kind": "views"}})
    return us


# ---------------------------------------------------------------------- arithmetic specs
def twos(ctx, content):
    """two's complement value of a big-endian octet sequence (len >= 1)"""
    n = len(content)
    v = 0
    for i in range(n):
        v = v * 256 + content[i]
    return ctx.ite(content[0] >= 128, v - (1 << (8 * n)), v)


def minimal(ctx, content):
    n = len(content)
    if n == 1:
        return True
    pad0 = ctx.all(content[0] == 0, content[1] < 128)
    padf = ctx.all(content[0] == 255, content[1] >= 128)
    return ctx.all(ctx.neg(pad0), ctx.neg(padf))


def body(ctx, shape):
    k = shape["kind"]
    return globals()["_" + k](ctx, shape)


def _views(ctx, shape):
    import array

    A = ctx.L.asn1
    for L in (0, 1, 127, 128, 200, 255, 256, 33000):
        for num in (4, 31, 200):
            content = bytes((i * 7 + 3) % 256 for i in range(L))
            w = A.ASN1Writer()
            w.write_octet_string(content, tag=A.ASN1Tag(A.TagClass.CONTEXT_SPECIFIC, num, False))
            w.write_integer(-129)
            w.write_enumerated(-1)
            w.write_boolean(True)
            enc = bytes(w.get_data())
            for nm, mk in (("bytes", lambda b: b), ("bytearray", bytearray), ("mv-B", memoryview), ("mv-b", lambda b: memoryview(array.array("b", [x - 256 if x > 127 else x for x in b]))), ("mv-c", lambda b: memoryview(b).cast("c"))):
                try:
                    rd = A.ASN1Reader(mk(enc))
                    got = bytes(rd.read_octet_string(tag=A.ASN1Tag(A.TagClass.CONTEXT_SPECIFIC, num, False)))
                    rest = (rd.read_integer(), rd.read_enumerated(int), rd.read_boolean(), bytes(rd.get_remaining_data()))
                except Exception as e:  # noqa: BLE001
                    from sx.harness import exc_site

                    ctx.fail("tlv-readback-through-buffer-kind-raises", f"{nm}:{type(e).__name__}@{exc_site(e)}")
                ctx.require(got == content and rest == (-129, -1, True, b""), "tlv-readback-through-buffer-kind:" + nm)


def _call(ctx, f, label):
    """run library code; only its documented exceptions may escape"""
    try:
        return ("ok", f())
    except Exception as e:  # noqa: BLE001
        name = type(e).__name__
        return ("exc", name, e)


def _int_write(ctx, shape):
    A = ctx.L.asn1
    K = shape["K"]
    v = ctx.int("v", -(1 << (8 * K)) + 1, (1 << (8 * K)) - 1)
    w = A.ASN1Writer()
    r = _call(ctx, (lambda: w.write_enumerated(v)) if shape["enum"] else (lambda: w.write_integer(v)), "write")
    if r[0] != "ok":
        from sx.harness import exc_site

        ctx.fail("writer-raises", f"{r[1]}@{exc_site(r[2])}")
    data = ctx.tobytes(w.get_data())
    ctx.observe("bytes", data)
    n = len(data) - 2
    ctx.require(n >= 1, "int-write-shape")
    ctx.require(data[0] == (10 if shape["enum"] else 2), "int-write-tag")
    ctx.require(data[1] == n, "int-write-length-octet")
    content = data[2:]
    ctx.require(twos(ctx, content) == v, "int-write-value")
    ctx.require(minimal(ctx, content), "int-write-minimal")


def _int_read(ctx, shape):
    A = ctx.L.asn1
    n = shape["n"]
    content = ctx.bytes("content", n)
    tail = ctx.bytes("tail", 2)
    tag = 10 if shape["enum"] else 2
    data = bytes([tag, n]) + content + tail
    rd = A.ASN1Reader(data)
    if shape["enum"]:
        r = _call(ctx, lambda: rd.read_enumerated(ctx.ident), "read")
    else:
        r = _call(ctx, lambda: rd.read_integer(), "read")
    if r[0] != "ok":
        from sx.harness import exc_site

        ctx.observe("exc", r[1])
        ctx.fail("int-read-raises", f"{r[1]}@{exc_site(r[2])}")
    ctx.observe("val", r[1])
    ctx.require(r[1] == twos(ctx, content), "int-read-value")
    rest = rd.get_remaining_data()
    ctx.require(ctx.eq(rest, tail), "int-read-consumes-exactly")


def _int_rt(ctx, shape):
    A = ctx.L.asn1
    K = shape["K"]
    v = ctx.int("v", -(1 << (8 * K)) + 1, (1 << (8 * K)) - 1)
    tail = ctx.bytes("tail", 1)
    w = A.ASN1Writer()
    w.write_integer(v)
    data = ctx.tobytes(w.get_data()) + tail
    rd = A.ASN1Reader(data)
    r = _call(ctx, lambda: rd.read_integer(), "read")
    if r[0] != "ok":
        from sx.harness import exc_site

        ctx.fail("int-roundtrip-raises", f"{r[1]}@{exc_site(r[2])}")
    ctx.observe("val", r[1])
    ctx.require(r[1] == v, "int-roundtrip-value")
    ctx.require(ctx.eq(rd.get_remaining_data(), tail), "int-roundtrip-consumes-exactly")


def _base128(ctx, num):
    """reference: big-endian base-128 digits of num >= 31, continuation bit on all but the last"""
    digs = []
    n = num
    # number of digits is found by forking on magnitude (harness-level fork)
    k = 1
    while ctx.is_true(num >= (1 << (7 * k))):
        k += 1
    for i in range(k - 1, -1, -1):
        d = (num // (1 << (7 * i))) % 128
        digs.append(d + (128 if i else 0))
    return digs


def _tlv(ctx, shape):
    A = ctx.L.asn1
    L = shape["L"]
    cls = ctx.int("cls", 0, 3)
    cons = ctx.bool("cons")
    num = ctx.int("num", 0, (1 << shape["tagbits"]) - 1)
    # UNIVERSAL numbers are documented as TypeTagNumber members
    ctx.assume(ctx.any(cls != 0, ctx.all(num >= 0, num <= 36)))
    if L <= 2:
        content = ctx.bytes("content", L)
    else:
        content = bytes(L)
    tail = ctx.bytes("tail", 1)
    def pack():
        if hasattr(A, "_pack_asn1"):
            return A._pack_asn1(cls, cons, num, content)
        # the private helper is gone (refactor): the public writer emits the same TLV
        w = A.ASN1Writer()
        w.write_octet_string(content, tag=A.ASN1Tag(A.TagClass(cls), num, cons))
        return w.get_data()

    r = _call(ctx, pack, "pack")
    if r[0] != "ok":
        from sx.harness import exc_site

        ctx.fail("tlv-pack-raises", f"{r[1]}@{exc_site(r[2])}")
    enc = r[1]
    ctx.observe("hdr", enc[: len(enc) - L])
    # ---- identifier octets against the arithmetic spec
    first = cls * 64 + ctx.ite(cons, 32, 0)
    if ctx.is_true(num < 31):
        ctx.require(enc[0] == first + num, "tlv-identifier-low")
        toct = 1
    else:
        ctx.require(enc[0] == first + 31, "tlv-identifier-high-lead")
        digs = _base128(ctx, num)
        for i, d in enumerate(digs):
            ctx.require(enc[1 + i] == d, "tlv-identifier-high-digit")
        ctx.require(enc[1] != 128, "tlv-identifier-minimal")
        toct = 1 + len(digs)
    # ---- length octets
    if L < 128:
        ctx.require(enc[toct] == L, "tlv-length-short")
        loct = 1
    else:
        nb = (L.bit_length() + 7) // 8
        ctx.require(enc[toct] == 128 + nb, "tlv-length-long-lead")
        for i in range(nb):
            ctx.require(enc[toct + 1 + i] == (L >> (8 * (nb - 1 - i))) & 255, "tlv-length-long-digit")
        loct = 1 + nb
    ctx.require(len(enc) == toct + loct + L, "tlv-total-length")
    ctx.require(ctx.eq(enc[toct + loct :], content), "tlv-content")
    # ---- read back
    data = enc + tail
    rd = A.ASN1Reader(data)
    r = _call(ctx, lambda: rd.peek_header(), "peek")
    if r[0] != "ok":
        from sx.harness import exc_site

        ctx.fail("tlv-readback-raises", f"{r[1]}@{exc_site(r[2])}")
    hdr = r[1]
    ctx.require(hdr.tag.tag_class == cls, "tlv-readback-class")
    ctx.require(hdr.tag.tag_number == num, "tlv-readback-number")
    ctx.require(ctx.eq(ctx.ident(hdr.tag.is_constructed), cons), "tlv-readback-constructed")
    ctx.require(hdr.tag_length == toct + loct, "tlv-readback-header-length")
    ctx.require(hdr.length == L, "tlv-readback-length")
    r = _call(ctx, lambda: rd.read_octet_string(header=hdr), "read")
    if r[0] != "ok":
        from sx.harness import exc_site

        ctx.fail("tlv-readback-raises", f"{r[1]}@{exc_site(r[2])}")
    ctx.require(ctx.eq(r[1], content), "tlv-readback-content")
    ctx.require(ctx.eq(rd.get_remaining_data(), tail), "tlv-readback-consumes-exactly")


# ---------------------------------------------------------------------- reference header parser
class _Short(Exception):
    pass


class _Bad(Exception):
    pass


def ref_header(ctx, data):
    """X.690 8.1.2/8.1.3 identifier and length octets, definite form; independent of the library.
    -> (cls, constructed(0/1), number, header_octets, length)"""
    n = len(data)
    if n == 0:
        raise _Short()
    b0 = data[0]
    cls = b0 // 64
    cons = (b0 // 32) % 2
    num = b0 % 32
    i = 1
    if ctx.is_true(num == 31):
        num = 0
        while True:
            if i >= n:
                raise _Short()
            o = data[i]
            i += 1
            num = num * 128 + o % 128
            if ctx.is_true(o < 128):
                break
    if ctx.is_true(cls == 0):
        # the reader's documented result type for UNIVERSAL numbers is the TypeTagNumber enum
        if ctx.is_true(ctx.any(num > 36, num < 0)):
            raise _Bad()
    if i >= n:
        raise _Short()
    l0 = data[i]
    i += 1
    if ctx.is_true(l0 < 128):
        return cls, cons, num, i, l0
    if ctx.is_true(l0 == 128):
        raise _Bad()
    k = l0 - 128
    length = 0
    j = 0
    while ctx.is_true(j < k):
        if i >= n:
            raise _Short()
        length = length * 256 + data[i]
        i += 1
        j += 1
    return cls, cons, num, i, length


def _hdr(ctx, shape):
    A = ctx.L.asn1
    data = ctx.bytes("data", shape["n"])
    try:
        exp = ("ok", ref_header(ctx, data))
    except _Short:
        exp = ("short",)
    except _Bad:
        exp = ("bad",)
    r = _call(ctx, lambda: A._read_asn1_header(data) if hasattr(A, "_read_asn1_header") else A.ASN1Reader(data).peek_header(), "hdr")
    if r[0] == "exc":
        ctx.observe("exc", r[1])
        from sx.harness import exc_site

        if r[1] == "NotEnougData":
            ctx.require(exp[0] == "short", "header-not-enough-data-but-complete", "NotEnougData")
        elif r[1] == "ValueError":
            ctx.require(exp[0] == "bad", "header-rejected-but-valid", "ValueError@" + exc_site(r[2]))
        else:
            ctx.fail("header-raises", f"{r[1]}@{exc_site(r[2])}")
        return
    h = r[1]
    ctx.observe("hdr", (h.tag.tag_class, h.tag.tag_number, h.tag.is_constructed, h.tag_length, h.length))
    ctx.require(exp[0] == "ok", "header-accepted-but-" + exp[0])
    cls, cons, num, hl, length = exp[1]
    ctx.require(h.tag.tag_class == cls, "header-class")
    ctx.require(h.tag.tag_number == num, "header-number")
    ctx.require(ctx.ite(h.tag.is_constructed, 1, 0) == cons, "header-constructed")
    ctx.require(h.tag_length == hl, "header-octets")
    ctx.require(h.length == length, "header-length")


def _bool(ctx, shape):
    A = ctx.L.asn1
    b = ctx.bool("b")
    tail = ctx.bytes("tail", 1)
    w = A.ASN1Writer()
    w.write_boolean(b)
    enc = ctx.tobytes(w.get_data())
    ctx.observe("enc", enc)
    ctx.require(ctx.eq(enc, bytes([1, 1]) + bytes([255 if ctx.is_true(b) else 0])), "bool-write")
    rd = A.ASN1Reader(enc + tail)
    v = rd.read_boolean()
    ctx.require(ctx.eq(ctx.ident(v), b), "bool-roundtrip")
    ctx.require(ctx.eq(rd.get_remaining_data(), tail), "bool-consumes-exactly")


def _bool_read(ctx, shape):
    A = ctx.L.asn1
    n = shape["n"]
    content = ctx.bytes("content", n)
    tail = ctx.bytes("tail", 1)
    rd = A.ASN1Reader(bytes([1, n]) + content + tail)
    r = _call(ctx, lambda: rd.read_boolean(), "read")
    if r[0] != "ok":
        from sx.harness import exc_site

        if r[1] not in LIB_EXC:
            ctx.fail("bool-read-raises", f"{r[1]}@{exc_site(r[2])}")
        return
    ctx.observe("val", r[1])
    if n == 1:
        ctx.require(ctx.eq(ctx.ident(r[1]), content[0] != 0), "bool-read-value")
    ctx.require(ctx.eq(rd.get_remaining_data(), tail), "bool-read-consumes-exactly")


def _nest(ctx, shape):
    """writer nesting vs reader nesting: leaves come back, every reader ends exactly at its value"""
    A = ctx.L.asn1
    depth, st = shape["depth"], shape["st"]
    leaf1 = ctx.bytes("leaf1", 2)
    leaf2 = ctx.bytes("leaf2", 1)
    iv = ctx.int("iv", -70000, 70000)
    tail = ctx.bytes("tail", 1)
    w = A.ASN1Writer()

    def push(wr, d):
        use_set = st == "set" or (st == "mixed" and d % 2 == 0)
        return wr.push_set() if use_set else wr.push_sequence()

    def build(wr, d):
        with push(wr, d) as inner:
            inner.write_octet_string(leaf1)
            if d < depth:
                build(inner, d + 1)
            inner.write_integer(iv)
        wr.write_octet_string(leaf2)

    build(w, 1)
    data = ctx.tobytes(w.get_data()) + tail
    ctx.observe("enc", data)
    rd = A.ASN1Reader(data)

    def rdpush(r, d):
        use_set = st == "set" or (st == "mixed" and d % 2 == 0)
        return r.read_set() if use_set else r.read_sequence()

    def check(r, d):
        inner = rdpush(r, d)
        ctx.require(ctx.eq(inner.read_octet_string(), leaf1), "nest-leaf1")
        if d < depth:
            check(inner, d + 1)
        ctx.require(inner.read_integer() == iv, "nest-int")
        ctx.require(not inner, "nest-inner-exhausted")
        ctx.require(ctx.eq(r.read_octet_string(), leaf2), "nest-leaf2")

    res = _call(ctx, lambda: check(rd, 1), "nest")
    if res[0] != "ok":
        from sx.harness import exc_site

        if res[1] == "RealViolation":
            raise res[2]
        ctx.fail("nest-raises", f"{res[1]}@{exc_site(res[2])}")
    ctx.require(ctx.eq(rd.get_remaining_data(), tail), "nest-consumes-exactly")


def _skip(ctx, shape):
    """skip_value(header) advances by exactly one TLV"""
    A = ctx.L.asn1
    c1 = ctx.bytes("c1", 2)
    c2 = ctx.bytes("c2", 1)
    num = ctx.int("num", 0, 200)
    cls = ctx.int("cls", 1, 3)
    w = A.ASN1Writer()
    w.write_octet_string(c1, tag=A.ASN1Tag(A.TagClass(cls), num, False))
    w.write_octet_string(c2)
    rd = A.ASN1Reader(ctx.tobytes(w.get_data()))
    h = rd.peek_header()
    rd.skip_value(h)
    ctx.require(ctx.eq(rd.read_octet_string(), c2), "skip-lands-on-next")
    ctx.require(not rd, "skip-exhausted")
