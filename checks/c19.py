"""C19 - sessions are isolated; custom types take effect per session only.

(1) Interleaving: two sessions A and B (client/client, client/server, server/server) each run a
    schedule of two calls with symbolic arguments.  B's transcript is first recorded with B alone
    in a brand-new copy of the library, then every interleaving of the two schedules is run in
    another brand-new copy and each session's transcript (return values, exception classes,
    states, drained bytes - symbolic terms) must equal its isolated one.
(2) Registration: every subset of {custom control, custom filter, custom credential} is registered
    on A only; bytes carrying each custom type with a symbolic payload decode to the custom type
    on A iff registered, and to the generic control / a ProtocolError on B; A encodes the type;
    a duplicate registration raises ValueError; B's choice lists are unchanged.
A fresh library copy per run means shared class- or module-level state (the thing that would break
isolation) cannot hide by being present in both runs.
"""
import dataclasses
import itertools

from checks import sess
from sx.harness import exc_site

PROPERTY = "C19"
LEVEL = "model_checking"
OPTIONS = {"quick": {"max_paths": 20000, "unit_budget_s": 600}, "thorough": {"max_paths": 200000, "unit_budget_s": 1800}}
BOUNDS = {
    "quick": {"interleaving": "two sessions x schedules of 2 calls each from a reduced operation set (requests, responses, deliveries, unbind, registrations), all 6 interleavings, ids / result codes / payload symbolic; 10 schedules of 2-3 calls in which the two sessions register different custom controls and each decodes the other's type", "registration": "all 8 subsets of the three custom types, symbolic payload octets; every history of 3 registrations / deliveries of two custom types of one kind on one session (decode before and after registering, rejected duplicate followed by a valid registration)"},
    "thorough": {"interleaving": "schedules of 2: for the client/server pair the client runs over the full operation set; reduced sets otherwise", "registration": "same, histories of 3 and 4"},
}
OUTSIDE = ["schedules longer than 3 calls per session", "more than two sessions"]
ASSUMPTIONS = ["each run uses a freshly loaded copy of the library, so 'alone' really means no other session ever existed in that copy"]
EXPLANATION = "symbolic execution of two sessions' schedules in isolated and interleaved order; transcript equality is a z3 validity query"

C_OPS = ["bind_simple", "search", "extended", "unbind", "recv_search_done", "recv_extended_response", "reg_control", "reg_filter", "send_custom"]
S_OPS = ["recv_extended_request", "recv_search_request", "recv_bind_request", "extended_response", "search_done", "unbind", "reg_control", "recv_custom", "recv_sd", "recv_sd_val"]
C_RED = ["search", "reg_control", "send_custom"]
S_RED = ["recv_extended_request", "reg_control", "recv_custom", "recv_sd", "recv_sd_val"]


def units(tier):
    us = []
    quick = tier == "quick"
    for sa, sb in (("client", "client"), ("client", "server"), ("server", "server")):
        # thorough: session A over the full operation set, session B over the reduced one
        full = not quick and sa != sb  # (thorough: the mixed pair runs session A over the full operation set)
        opsa = (C_OPS if full else C_RED) if sa == "client" else (S_OPS if full else S_RED)
        opsb = C_RED if sb == "client" else S_RED
        for a in itertools.product(opsa, repeat=2):
            for b in itertools.product(opsb, repeat=2):
                us.append({"name": f"il_{sa[0]}{sb[0]}_{'+'.join(a)}__{'+'.join(b)}", "shape": {"kind": "il", "sa": sa, "sb": sb, "a": list(a), "b": list(b)}})
    # unknown result codes far outside the enumeration, concrete: what one session has seen must not
    # change what the other gets for a different code (process-wide tables keyed by such values)
    for i, (x, y) in enumerate([(-1, 2**32 - 1), (2**32 - 1, -1), (666, 2**32 + 666), (2**31, -(2**31)), (-1, -1), (2**64 + 5, 5)]):
        us.append({"name": f"il_codes_{i}", "shape": {"kind": "il", "sa": "client", "sb": "client", "a": ["extended", f"recv_xr#{x}"], "b": ["extended", f"recv_xr#{y}"]}})
    # two sessions holding DIFFERENT registrations (of the same count): what one of them decodes
    # for the other's control type must not influence what the other gets (schedules of 2 and 3)
    diff = [
        (["reg_control2", "recv_custom"], ["reg_control", "recv_custom"]),
        (["reg_control2", "recv_custom2"], ["reg_control", "recv_custom2"]),
        (["reg_control", "recv_custom2"], ["reg_control2", "recv_custom"]),
        (["reg_control2", "recv_custom", "recv_custom2"], ["reg_control", "recv_custom"]),
        (["recv_custom", "reg_control2"], ["reg_control", "recv_custom"]),
    ]
    for i, (a, b) in enumerate(diff):
        for sa, sb in (("server", "server"), ("client", "server")):
            us.append({"name": f"il_diffreg_{sa[0]}{sb[0]}_{i}", "shape": {"kind": "il", "sa": sa, "sb": sb, "a": a, "b": b}})
    for mask in range(8):
        us.append({"name": f"reg_{mask}", "shape": {"kind": "reg", "mask": mask}})
    # histories of registrations and deliveries on ONE session: decode before and after
    # registering, a rejected duplicate followed by a valid registration, two custom types
    for kind in ("control", "filter", "cred"):
        for n in ((3,) if quick else (3, 4)):
            for seq in itertools.product(["regX", "regY", "decX", "decY"], repeat=n):
                if not any(o.startswith("reg") for o in seq) or not any(o.startswith("dec") for o in seq):
                    if seq not in (("regX", "regX", "regY"), ("regX", "regY", "regX")):
                        continue
                us.append({"name": f"reghist_{kind}_{'+'.join(seq)}", "shape": {"kind": "reghist", "what": kind, "ops": list(seq)}})
    return us


class Sub:
    """the harness context with another library namespace"""

    def __init__(self, ctx, L):
        self._ctx = ctx
        self.L = L

    def __getattr__(self, k):
        return getattr(self._ctx, k)


def custom_types(L):
    C, F, A, N = L.controls, L.filter, L.auth, L.asn1

    @dataclasses.dataclass(frozen=True)
    class MyControl(C.LDAPControl):
        control_type: str = dataclasses.field(init=False, default="1.2.3.4")
        value: object = dataclasses.field(init=False, repr=False, default=None)
        payload: bytes = b""

        def get_value(self, options):
            return self.payload

        @classmethod
        def unpack(cls, control_type, critical, value, options):
            return cls(critical=critical, payload=value or b"")

    @dataclasses.dataclass(frozen=True)
    class MyFilter(F.LDAPFilter):
        filter_id: int = dataclasses.field(init=False, repr=False, default=20)
        payload: bytes = b""

        def pack(self, writer, options):
            writer.write_octet_string(self.payload, tag=N.ASN1Tag(N.TagClass.CONTEXT_SPECIFIC, 20, False))

        @classmethod
        def unpack(cls, reader, options):
            return cls(payload=reader.read_octet_string(tag=N.ASN1Tag(N.TagClass.CONTEXT_SPECIFIC, 20, False)))

    @dataclasses.dataclass(frozen=True)
    class MyCred(A.AuthenticationCredential):
        auth_id: int = dataclasses.field(init=False, repr=False, default=9)
        payload: bytes = b""

        def pack(self, writer, options):
            writer.write_octet_string(self.payload, tag=N.ASN1Tag(N.TagClass.CONTEXT_SPECIFIC, 9, False))

        @classmethod
        def unpack(cls, reader, options):
            return cls(payload=reader.read_octet_string(tag=N.ASN1Tag(N.TagClass.CONTEXT_SPECIFIC, 9, False)))

    return MyControl, MyFilter, MyCred


def _colliding_types(L, MyControl, MyFilter, MyCred):
    """other classes that reuse ids already taken"""
    C, F, A = L.controls, L.filter, L.auth

    def ctl(oid):
        @dataclasses.dataclass(frozen=True)
        class Other(C.LDAPControl):
            control_type: str = dataclasses.field(init=False, default=oid)
            value: object = dataclasses.field(init=False, repr=False, default=None)

        return Other

    def flt(fid):
        @dataclasses.dataclass(frozen=True)
        class Other(F.LDAPFilter):
            filter_id: int = dataclasses.field(init=False, repr=False, default=fid)

        return Other

    def cred(aid):
        @dataclasses.dataclass(frozen=True)
        class Other(A.AuthenticationCredential):
            auth_id: int = dataclasses.field(init=False, repr=False, default=aid)

        return Other

    return (
        {"custom": ctl("1.2.3.4"), "builtin": ctl("1.2.840.113556.1.4.319")},
        {"custom": flt(20), "builtin": flt(7)},
        {"custom": cred(9), "builtin": cred(0)},
    )


def do(ctx, sess_, side, op, tag, types):
    """one call; -> transcript entry (outcome, state, drained bytes)"""
    M = ctx.L.messages
    MyControl, MyFilter, MyCred = types
    try:
        if op == "reg_control":
            ret = sess_.register_control(MyControl)
        elif op == "reg_filter":
            ret = sess_.register_filter(MyFilter)
        elif op == "reg_control2":
            # a different custom control (an OID of its own): the two sessions then hold different
            # registrations of the same count
            ret = sess_.register_control(_second_types(ctx.L)[0])
        elif op == "recv_custom2":
            p = ctx.bytes(f"{tag}.pl", 1)
            mid = ctx.int(f"{tag}.mid", 0, sess.IDMAX)
            data = M.ExtendedRequest(mid, [_second_types(ctx.L)[0](critical=False, payload=p)], "1.2", None).pack(sess.po(ctx))
            ret = sess_.receive(data)
        elif op == "send_custom":
            p = ctx.bytes(f"{tag}.pl", 1)
            ret = sess_.extended_request("1.2", None, controls=[MyControl(critical=True, payload=p)])
        elif op in ("recv_sd", "recv_sd_val"):
            # a library-known control type, once without and once with a value
            C = ctx.L.controls
            mid = ctx.int(f"{tag}.mid", 0, sess.IDMAX)
            if op == "recv_sd":
                ctl = C.ShowDeletedControl(critical=False)
            else:
                ctl = C.LDAPControl("1.2.840.113556.1.4.417", False, ctx.bytes(f"{tag}.cv", 1))
            data = M.ExtendedRequest(mid, [ctl], "1.2", None).pack(sess.po(ctx))
            ret = sess_.receive(data)
        elif op.startswith("recv_xr#"):
            code = int(op.split("#", 1)[1])
            msg = M.ExtendedResponse(1, [], M.LDAPResult(M.LDAPResultCode(code), "", ""), None, None)
            got = sess_.receive(msg.pack(sess.po(ctx)))
            ret = [(type(m).__name__, m.message_id, int(m.result.result_code.value), m.result.result_code.name) for m in got]
        elif op == "recv_custom":
            p = ctx.bytes(f"{tag}.pl", 1)
            mid = ctx.int(f"{tag}.mid", 0, sess.IDMAX)
            data = M.ExtendedRequest(mid, [MyControl(critical=False, payload=p)], "1.2", None).pack(sess.po(ctx))
            ret = sess_.receive(data)
        else:
            info = sess.do_op(ctx, sess_, side, op, tag)
            if "exc" in info:
                raise info["exc"]
            ret = info["ret"]
        out = ("ok", ret)
    except Exception as e:  # noqa: BLE001
        out = ("exc", type(e).__name__)
    return (out, sess_.state.name, ctx.tobytes(sess_.data_to_send()))


def new_session(ctx, side):
    S = ctx.L.session
    return S.LDAPClient() if side == "client" else S.LDAPServer()


def _second_types(L):
    """a second custom control / filter / credential with ids of their own"""
    C, F, A, N = L.controls, L.filter, L.auth, L.asn1

    @dataclasses.dataclass(frozen=True)
    class MyControl2(C.LDAPControl):
        control_type: str = dataclasses.field(init=False, default="1.2.3.5")
        value: object = dataclasses.field(init=False, repr=False, default=None)
        payload: bytes = b""

        def get_value(self, options):
            return self.payload

        @classmethod
        def unpack(cls, control_type, critical, value, options):
            return cls(critical=critical, payload=value or b"")

    @dataclasses.dataclass(frozen=True)
    class MyFilter2(F.LDAPFilter):
        filter_id: int = dataclasses.field(init=False, repr=False, default=21)
        payload: bytes = b""

        def pack(self, writer, options):
            writer.write_octet_string(self.payload, tag=N.ASN1Tag(N.TagClass.CONTEXT_SPECIFIC, 21, False))

        @classmethod
        def unpack(cls, reader, options):
            return cls(payload=reader.read_octet_string(tag=N.ASN1Tag(N.TagClass.CONTEXT_SPECIFIC, 21, False)))

    @dataclasses.dataclass(frozen=True)
    class MyCred2(A.AuthenticationCredential):
        auth_id: int = dataclasses.field(init=False, repr=False, default=10)
        payload: bytes = b""

        def pack(self, writer, options):
            writer.write_octet_string(self.payload, tag=N.ASN1Tag(N.TagClass.CONTEXT_SPECIFIC, 10, False))

        @classmethod
        def unpack(cls, reader, options):
            return cls(payload=reader.read_octet_string(tag=N.ASN1Tag(N.TagClass.CONTEXT_SPECIFIC, 10, False)))

    return MyControl2, MyFilter2, MyCred2


def _reghist(ctx, shape):
    """one server session; the expected outcome of every step comes from a ghost registry"""
    c = Sub(ctx, ctx.fresh_lib())
    L = c.L
    M, S = L.messages, L.session
    what = shape["what"]
    i = {"control": 0, "filter": 1, "cred": 2}[what]
    X, Y = custom_types(L)[i], _second_types(L)[i]
    srv = S.LDAPServer()
    reg = {"control": srv.register_control, "filter": srv.register_filter, "cred": srv.register_auth_credential}[what]
    opts = M.PackingOptions()
    for T in (X, Y):
        {"control": opts.control, "filter": opts.filter, "cred": opts.authentication}[what].choices.append(T)
    registered = set()
    closed = False
    for k, op in enumerate(shape["ops"]):
        T = X if op.endswith("X") else Y
        tn = op[-1]
        if op.startswith("reg"):
            try:
                ret = reg(T)
                out = "ok"
            except ValueError:
                out = "ValueError"
            except Exception as e:  # noqa: BLE001
                ctx.fail("registration-raises-foreign-exception", f"{type(e).__name__}@{exc_site(e)}")
                return
            ctx.observe(f"{k}:{op}", out)
            if tn in registered:
                ctx.require(out == "ValueError", "duplicate-registration-accepted")
            else:
                ctx.require(out == "ok", "valid-registration-rejected-after-this-history")
                registered.add(tn)
            continue
        p = ctx.bytes(f"pl{k}", 1)
        mid = 10 + k
        if what == "control":
            data = M.ExtendedRequest(mid, [T(critical=False, payload=p)], "1.2", None).pack(opts)
        elif what == "filter":
            data = M.SearchRequest(mid, [], "", M.SearchScope.BASE, M.DereferencingPolicy.NEVER, 0, 0, False, T(payload=p), []).pack(opts)
        else:
            data = M.BindRequest(mid, [], 3, "", T(payload=p)).pack(opts)
        try:
            got = srv.receive(data)
            out = ("ok", got)
        except Exception as e:  # noqa: BLE001
            out = ("exc", type(e).__name__, exc_site(e))
        ctx.observe(f"{k}:{op}", out[0] if out[0] == "ok" else out[:2])
        if closed:
            continue  # (what a closed session does with input is C05/C08's subject, not this property's)
        if what == "cred" and out[0] == "ok":
            # a bind request was accepted: answer it, so that the next request is legal
            srv.bind_response(mid)
            srv.data_to_send()
        if tn in registered:
            ctx.require(out[0] == "ok" and len(out[1]) == 1, f"registered-{what}-not-decoded-after-this-history")
            if out[0] == "ok" and len(out[1]) == 1:
                msg = out[1][0]
                obj = {"control": lambda: msg.controls[0], "filter": lambda: msg.filter, "cred": lambda: msg.authentication}[what]()
                ctx.require(type(obj) is T, f"registered-{what}-decoded-as-other-type-after-this-history")
                if type(obj) is T:
                    ctx.require(ctx.eq(obj.payload, p), f"registered-{what}-payload")
        elif what == "control":
            ctx.require(out[0] == "ok" and len(out[1]) == 1, "unknown-control-must-decode-as-generic")
            if out[0] == "ok" and len(out[1]) == 1:
                ctl = out[1][0].controls[0]
                ctx.require(type(ctl).__name__ == "LDAPControl", "unregistered-control-decoded-as-custom")
        else:
            ctx.require(out[0] == "exc" and out[1] == "ProtocolError", f"unregistered-{what}-accepted")
            closed = True


def body(ctx, shape):
    if shape["kind"] == "reg":
        return _reg(ctx, shape)
    if shape["kind"] == "reghist":
        return _reghist(ctx, shape)
    sa, sb, a, b = shape["sa"], shape["sb"], shape["a"], shape["b"]
    # ---- isolated transcripts, each in its own copy of the library
    iso = {}
    for who, side, ops in (("A", sa, a), ("B", sb, b)):
        c = Sub(ctx, ctx.fresh_lib())
        types = custom_types(c.L)
        s = new_session(c, side)
        iso[who] = [do(c, s, side, op, f"{who}{i}", types) for i, op in enumerate(ops)]
    ctx.observe("iso", iso)
    # ---- every interleaving, in a third copy (fresh sessions each time; library state left behind
    # by an earlier interleaving would show up as a difference from the pristine transcripts too)
    n, m = len(a), len(b)
    c = Sub(ctx, ctx.fresh_lib())
    types = custom_types(c.L)
    for order in sorted(set(itertools.permutations("A" * n + "B" * m))):
        sA, sB = new_session(c, sa), new_session(c, sb)
        idx = {"A": 0, "B": 0}
        got = {"A": [], "B": []}
        for who in order:
            i = idx[who]
            idx[who] += 1
            if who == "A":
                got["A"].append(do(c, sA, sa, a[i], f"A{i}", types))
            else:
                got["B"].append(do(c, sB, sb, b[i], f"B{i}", types))
        for who in ("A", "B"):
            for i, (x, y) in enumerate(zip(got[who], iso[who])):
                ctx.require(x[0][0] == y[0][0], "interleaving-changes-outcome")
                ctx.require(_eq(ctx, x[0][1], y[0][1]), "interleaving-changes-result")
                ctx.require(x[1] == y[1], "interleaving-changes-state")
                ctx.require(ctx.eq(x[2], y[2]), "interleaving-changes-emitted-bytes")
        # values handed out earlier are the caller's: nothing another session did later may alter them
        for who in ("A", "B"):
            for x, y in zip(got[who], iso[who]):
                ctx.require(ctx.eq(x[0][1], y[0][1]), "value-returned-earlier-changed-by-a-later-operation")


def _eq(ctx, x, y):
    from checks import msgs

    if isinstance(x, list) and isinstance(y, list):
        if len(x) != len(y):
            return False
        return ctx.all(*[msgs.msg_eq(ctx, p, q) if dataclasses.is_dataclass(p) else ctx.eq(p, q) for p, q in zip(x, y)])
    return ctx.eq(x, y)


def _reg(ctx, shape):
    mask = shape["mask"]
    c = Sub(ctx, ctx.fresh_lib())
    L = c.L
    M, S = L.messages, L.session
    MyControl, MyFilter, MyCred = custom_types(L)
    A, B = S.LDAPServer(), S.LDAPServer()
    before = [list(B._packing_options.control.choices), list(B._packing_options.filter.choices), list(B._packing_options.authentication.choices)]
    regs = {"control": bool(mask & 1), "filter": bool(mask & 2), "cred": bool(mask & 4)}
    if regs["control"]:
        A.register_control(MyControl)
    if regs["filter"]:
        A.register_filter(MyFilter)
    if regs["cred"]:
        A.register_auth_credential(MyCred)
    # a duplicate registration is rejected
    for flag, fn, t in ((regs["control"], A.register_control, MyControl), (regs["filter"], A.register_filter, MyFilter), (regs["cred"], A.register_auth_credential, MyCred)):
        if flag:
            try:
                fn(t)
            except ValueError:
                pass
            except Exception as e:  # noqa: BLE001
                ctx.fail("duplicate-registration-wrong-error", f"{type(e).__name__}@{exc_site(e)}")
            else:
                ctx.fail("duplicate-registration-accepted")
    # a DIFFERENT class claiming an id that is already taken (by a custom or a built-in type) is a
    # duplicate registration too
    Oc, Of, Oa = _colliding_types(L, MyControl, MyFilter, MyCred)
    fresh = S.LDAPServer()
    cases = [("builtin-control", fresh.register_control, Oc["builtin"]), ("builtin-filter", fresh.register_filter, Of["builtin"]), ("builtin-credential", fresh.register_auth_credential, Oa["builtin"])]
    if regs["control"]:
        cases.append(("custom-control", A.register_control, Oc["custom"]))
    if regs["filter"]:
        cases.append(("custom-filter", A.register_filter, Of["custom"]))
    if regs["cred"]:
        cases.append(("custom-credential", A.register_auth_credential, Oa["custom"]))
    for nm, fn, t in cases:
        try:
            fn(t)
        except ValueError:
            pass
        except Exception as e:  # noqa: BLE001
            ctx.fail("duplicate-registration-wrong-error", f"{type(e).__name__}@{exc_site(e)}")
        else:
            ctx.fail("second-type-with-a-taken-id-accepted", nm)
    after = [list(B._packing_options.control.choices), list(B._packing_options.filter.choices), list(B._packing_options.authentication.choices)]
    ctx.require(before == after, "registration-on-A-changed-B")
    p = ctx.bytes("payload", 2)
    mid = ctx.int("mid", 0, sess.IDMAX)
    opts = M.PackingOptions()
    opts.control.choices.append(MyControl)
    opts.filter.choices.append(MyFilter)
    opts.authentication.choices.append(MyCred)
    wire = {
        "control": M.ExtendedRequest(mid, [MyControl(critical=True, payload=p)], "1.2", None).pack(opts),
        "filter": M.SearchRequest(mid, [], "", M.SearchScope.BASE, M.DereferencingPolicy.NEVER, 0, 0, False, MyFilter(payload=p), []).pack(opts),
        "cred": M.BindRequest(mid, [], 3, "", MyCred(payload=p)).pack(opts),
    }
    for kind, data in wire.items():
        for name, s_, registered in (("A", A, regs[kind]), ("B", B, False)):
            s2 = S.LDAPServer()
            # same registrations as the session under test, on a session of its own (receive closes on error)
            s2._packing_options = s_._packing_options
            try:
                got = s2.receive(data)
                out = ("ok", got)
            except Exception as e:  # noqa: BLE001
                out = ("exc", type(e).__name__, exc_site(e))
            ctx.observe(f"{kind}@{name}", out[0] if out[0] == "ok" else out[:2])
            if registered:
                # the same message arriving in two pieces goes through the buffered path
                s3 = S.LDAPServer()
                s3._packing_options = s_._packing_options
                cut = len(data) // 2
                try:
                    got2 = s3.receive(data[:cut]) + s3.receive(data[cut:])
                    out2 = ("ok", got2)
                except Exception as e:  # noqa: BLE001
                    out2 = ("exc", type(e).__name__, exc_site(e))
                ctx.require(out2[0] == "ok" and len(out2[1]) == 1, f"registered-{kind}-not-decoded-when-delivered-in-two-pieces")
                if out2[0] == "ok" and len(out2[1]) == 1:
                    from checks import msgs as _m

                    ctx.require(_m.msg_eq(ctx, out2[1][0], out[1][0]) if out[0] == "ok" else False, f"registered-{kind}-decodes-differently-in-two-pieces")
            if registered:
                ctx.require(out[0] == "ok", f"registered-{kind}-not-decoded")
                msg = out[1][0]
                obj = {"control": lambda: msg.controls[0], "filter": lambda: msg.filter, "cred": lambda: msg.authentication}[kind]()
                ctx.require(type(obj).__name__ == {"control": "MyControl", "filter": "MyFilter", "cred": "MyCred"}[kind], f"registered-{kind}-decoded-as-other-type")
                ctx.require(ctx.eq(obj.payload, p), f"registered-{kind}-payload")
            else:
                if kind == "control":
                    ctx.require(out[0] == "ok", "unknown-control-must-decode-as-generic")
                    ctl = out[1][0].controls[0]
                    ctx.require(type(ctl).__name__ == "LDAPControl", f"unregistered-control-decoded-as-custom-on-{name}")
                    ctx.require(ctx.eq(ctl.value, p), "generic-control-value")
                else:
                    ctx.require(out[0] == "exc" and out[1] == "ProtocolError", f"unregistered-{kind}-accepted-on-{name}")
    # the registering session also encodes the type
    if regs["control"]:
        Acl = S.LDAPClient()
        Acl.register_control(MyControl)
        Acl.extended_request("1.2", None, controls=[MyControl(critical=True, payload=p)])
        ctx.require(ctx.eq(ctx.tobytes(Acl.data_to_send()), M.ExtendedRequest(1, [MyControl(critical=True, payload=p)], "1.2", None).pack(opts)), "registered-control-encoding")
