import importlib
import sys

from sx import runner


def main():
    if len(sys.argv) < 2:
        print("usage: check <ID> [--tier quick|thorough] [--replay FILE]")
        return 3
    pid = sys.argv[1].upper()
    mod = importlib.import_module(f"checks.{pid.lower()}")
    return runner.main(mod, sys.argv[2:])


if __name__ == "__main__":
    sys.exit(main())
