"""C06 - no complete protocol data unit is ever silently discarded.

Oracle: an independent framer of the *outer* identifier/length octets (oracles/ref_ber.frame) counts
the complete top-level TLVs in everything delivered so far; after every error-free receive() the
number of messages returned so far must equal that count (errors are C05's business).
Inputs: (a) every byte string up to N octets; (b) envelopes 30 L + L symbolic octets followed by a
valid message, whole and cut; (c) 2-octet windows in the interior of seed messages followed by a
valid message.
"""
from checks import common
from oracles.ref_ber import frame as ref_frame

PROPERTY = "C06"
LEVEL = "model_checking"
OPTIONS = {
    "quick": {"max_paths": 100000, "unit_budget_s": 600},
    "thorough": {"max_paths": 1500000, "unit_budget_s": 3300},
}
BOUNDS = {
    "quick": {"raw_bytes": "all byte strings of length <= 7 (server, fresh) / <= 6 (client with a search and an extended operation outstanding)", "envelope": "30 L + L symbolic octets, L <= 5, followed by a valid message; whole, and cut after every octet of the envelope", "window": "2 symbolic octets at every interior offset of 11 seed messages, followed by a valid message", "three chunks": "every pair of cut positions over 4 two-message streams with symbolic contents"},
    "thorough": {"raw_bytes": "length <= 9 / <= 8", "envelope": "L <= 7", "window": "2 and 3 symbolic octets at every interior offset of all 17 seeds"},
}
OUTSIDE = ["interiors longer than the envelope bound that are not seed-derived", "more than two chunks (C02 one-step lemma)"]
ASSUMPTIONS = ["a protocol error ends the accounting (the property allows an error instead of a message)"]
EXPLANATION = "symbolic execution of receive(); the framer oracle runs on the same symbolic bytes; obligation: returned == complete units, for all byte values on the path"


def units(tier):
    from checks.c05 import _seed_lengths, QUICK_SEEDS

    quick = tier == "quick"
    us = []
    for side, pre, nmax in (("server", "fresh", 7 if quick else 9), ("client", "search", 6 if quick else 8)):
        for n in range(0, nmax + 1):
            parts = common.raw_parts(n)
            for part in parts:
                us.append({"name": f"raw_{side}_n{n}" + (f"_p{part}" if part is not None else ""), "shape": {"kind": "raw", "side": side, "pre": pre, "n": n, "cut": None, "part": part}})
            if n <= (3 if quick else 5):
                for cut in range(1, n):
                    us.append({"name": f"raw_{side}_n{n}_cut{cut}", "shape": {"kind": "raw", "side": side, "pre": pre, "n": n, "cut": cut, "part": None}})
    for side, pre, follow in (("server", "fresh", "extended_request_noval"), ("client", "search", "search_entry")):
        for L in range(0, (5 if quick else 7) + 1):
            us.append({"name": f"env_{side}_L{L}", "shape": {"kind": "env", "side": side, "pre": pre, "L": L, "follow": follow, "cut": None}})
            for cut in range(1, L + 2):
                if quick and cut not in (1, 2, L + 1):
                    continue
                us.append({"name": f"env_{side}_L{L}_cut{cut}", "shape": {"kind": "env", "side": side, "pre": pre, "L": L, "follow": follow, "cut": cut}})
    # three chunks over two-message streams (long then short, short then long): a delivery can end
    # inside the second message after the buffered path has just completed the first one
    from checks import c02

    for name in c02.SHORT_STREAMS:
        us.append({"name": f"stream2_{name}", "shape": {"kind": "stream2", "stream": name, "side": c02.STREAM_SIDE[name], "pre": "search" if c02.STREAM_SIDE[name] == "client" else "fresh", "cut": None}})
    lens = _seed_lengths()
    for name, ln in lens.items():
        if quick and name not in QUICK_SEEDS:
            continue
        side = "server" if name in common.REQUESTS else "client"
        pre = "search" if side == "client" else "fresh"
        if name.startswith("bind_response"):
            pre = "binding"
        follow = "extended_request_noval" if side == "server" else "search_entry"
        for k in ((2,) if quick else (2, 3)):
            for off in range(2, ln - k + 1):
                if k == 3 and (ln > 60 and off % 4):
                    continue
                us.append({"name": f"win{k}_{name}_o{off}", "shape": {"kind": "win", "seed": name, "side": side, "pre": pre, "off": off, "k": k, "follow": follow, "cut": None}})
    return us


def _stream2(ctx, shape):
    from checks import c02, msgs

    M = ctx.L.messages
    side, pre = shape["side"], shape["pre"]
    data = b""
    for i, sk in enumerate(c02.STREAMS[shape["stream"]]):
        mid = (1 if sk["kind"].startswith("search") else 2) if side == "client" else i + 1
        data = data + msgs.build(c02._renamed(ctx, f"m{i}."), dict(sk), mid=mid).pack(M.PackingOptions())
    n = len(data)
    for a in range(0, n + 1):
        for b in range(a, n + 1):
            sess = common.make_session(ctx, side, pre)
            delivered = b""
            returned = 0
            for ch in (data[:a], data[a:b], data[b:]):
                delivered = delivered + ch
                try:
                    got = sess.receive(ch)
                except Exception:  # noqa: BLE001
                    break
                returned += len(got)
                common.check_accounting(ctx, delivered, returned, "ok")


def body(ctx, shape):
    side, pre, kind = shape["side"], shape["pre"], shape["kind"]
    if kind == "stream2":
        return _stream2(ctx, shape)
    if kind == "raw":
        data = ctx.bytes("data", shape["n"])
        common.assume_part(ctx, data, shape.get("part"))
    elif kind == "env":
        L = shape["L"]
        inner = ctx.bytes("inner", L)
        data = bytes([0x30, L]) + inner + common.seed_bytes(ctx, shape["follow"])
    else:
        seed = common.seed_bytes(ctx, shape["seed"])
        w = ctx.bytes("w", shape["k"])
        off = shape["off"]
        data = seed[:off] + w + seed[off + shape["k"] :] + common.seed_bytes(ctx, shape["follow"])
    sess = common.make_session(ctx, side, pre)
    cut = shape["cut"]
    chunks = [data] if cut is None else [data[:cut], data[cut:]]
    delivered = b""
    returned = 0
    for i, ch in enumerate(chunks):
        delivered = delivered + ch
        try:
            msgs = sess.receive(ch)
        except Exception as e:  # noqa: BLE001
            ctx.observe(f"error#{i}", type(e).__name__)
            if type(e).__name__ != "ProtocolError":
                # neither returned nor a protocol error: the unit is unaccounted for (and C05 is violated too)
                complete, _, st = ref_frame(ctx, delivered)
                if st == "ok" and ctx.is_true(complete > returned):
                    from sx.harness import exc_site

                    ctx.fail("complete-pdu-neither-returned-nor-protocol-error", f"{type(e).__name__}@{exc_site(e)}")
            return
        returned += len(msgs)
        ctx.observe(f"returned#{i}", returned)
        common.check_accounting(ctx, delivered, returned, "ok")
