"""C09 - session rules, decided on the real LDAPClient/LDAPServer objects (see checks/sess.py).

Inductive step: one public call with symbolic arguments from an arbitrary pre-state satisfying
the representation invariant (reached through the public API in every replay); bounded model
checking: every sequence of k calls from a fresh session.  Post-conditions come from the
documented state machine in checks/sess.py (ghost model), evaluated by z3 for all ids / result
codes / drain amounts / buffer contents.
"""
from checks import sess

PROPERTY = "C09"
LEVEL = "model_checking"
OPTIONS = {"quick": {"max_paths": 20000, "unit_budget_s": 600}, "thorough": {"max_paths": 100000, "unit_budget_s": 1800, "validate_every": 3}}
DEPTH = {"quick": 2, "thorough": 4}
BOUNDS = {
    "quick": {"inductive_step": "pre-states: 4 states x <= 2 outstanding operations (each search or not; on the server also ids that are in the search registry but no longer outstanding) with symbolic distinct ids <= 60, symbolic counter <= 61; one call of each of the 24 client / 20 server operations (18/14 plain + 6/6 carrying a paged-results control with a symbolic cookie) with symbolic id, result code 0..80, drain amount -4..40 or None", "bmc": "every sequence of 2 operations (control-carrying variants included) from a fresh client and a fresh server"},
    "thorough": {"inductive_step": "same", "bmc": "every sequence of 2 (with control-carrying variants) and 3 operations; every sequence of 4 client operations without drains (15^4)"},
}
OUTSIDE = ["more than 2 simultaneously outstanding operations in the inductive step", "ids above 60 (multi-octet INTEGER encodings are C01/C07's subject)", "a response whose kind does not match the operation its id belongs to (not specified by the property)"]
ASSUMPTIONS = ["symbolic pre-states are injected into the session attributes; every real-mode run (path validation, replay) reaches the same abstract state through public calls only", "pending output is observed by draining a deep copy of the session (public API only); pending octets arise from real sends (BMC sequences), never by injection"]
EXPLANATION = "symbolic execution of one/k session calls; post-conditions from an independent ghost model are z3 validity queries"
PROPS = ("C09",)


def units(tier):
    batch = [{"name": "batch_1500", "shape": {"kind": "batch", "n": 1500}}]
    if tier == "quick":
        return sess.step_units(tier) + sess.bmc_units(tier, 2) + batch
    # depth 4 on the client (ids and response correlation are the client's business), without drains
    f = lambda side, op: side == "client" and not op.startswith("drain") and op != "search_unencodable"  # noqa: E731
    return sess.step_units(tier) + sess.bmc_units(tier, 2) + sess.bmc_units(tier, 3) + sess.bmc_units(tier, 4, f) + batch


def _batch(ctx, shape):
    """a search stays in progress across ANY number of entries and references: thousands of them
    in one delivery, then the done message and the response of another operation"""
    S, M = ctx.L.session, ctx.L.messages
    po = M.PackingOptions()
    c = S.LDAPClient()
    sid = c.search_request("dc=x")
    eid = c.extended_request("1.2")
    c.data_to_send()
    n = shape["n"]
    ok = M.LDAPResult(M.LDAPResultCode.SUCCESS, "", "")
    data = bytes(M.SearchResultEntry(sid, [], "cn=a", []).pack(po)) * n + bytes(M.SearchResultReference(sid, [], ["ldap://x"]).pack(po)) * n
    data = data + bytes(M.SearchResultDone(sid, [], ok).pack(po)) + bytes(M.ExtendedResponse(eid, [], ok, None, None).pack(po))
    try:
        got = c.receive(data)
    except Exception as e:  # noqa: BLE001
        from sx.harness import exc_site

        ctx.fail("C09:responses-for-operations-in-progress-rejected-in-a-long-delivery", f"{type(e).__name__}@{exc_site(e)}")
    ctx.require(len(got) == 2 * n + 2, "C09:long-delivery-did-not-return-every-response")
    ctx.require(c.state.name == "OPENED", "C09:state-after-long-delivery")
    try:
        c.receive(bytes(M.SearchResultEntry(sid, [], "cn=a", []).pack(po)))
        ctx.fail("C09:response-for-unknown-or-completed-id-accepted", "after-long-delivery")
    except S.ProtocolError:
        pass


def body(ctx, shape):
    if shape["kind"] == "batch":
        return _batch(ctx, shape)
    if shape["kind"] == "step":
        return sess.run_step(ctx, shape, PROPS)
    return sess.run_bmc(ctx, shape, PROPS)
