"""C17 - schema text is parsed as RFC 4512 defines it.

Sentences are generated from the three ABNF grammars (object class, attribute type, DIT content
rule; upper-case keywords; single and parenthesised lists; 0..2 extensions; the AD quoted SYNTAX
variant) together with the object the grammar denotes (checks/schema_gen.py).  Holes are symbolic
(numeric OID digits, descriptor characters, quoted-string characters incl. \\27, \\5c, \\5C and
non-ASCII, the syntax length); every SP / WSP occurrence is varied (SP in 1..3, WSP in 0..2), one
position at a time and - thorough - all pairs.
Obligations: from_string(sentence) == denoted object, field by field.
Totality: 2-character symbolic windows over the sentences => a definition or ValueError.
"""
from checks import schema_gen as SGm
from sx.harness import exc_site

PROPERTY = "C17"
LEVEL = "model_checking"
OPTIONS = {"quick": {"max_paths": 100000, "unit_budget_s": 600}, "thorough": {"max_paths": 1000000, "unit_budget_s": 3000}}
BOUNDS = {
    "quick": {"sentences": "16 covering clause combinations of the three grammars", "quoted strings": "13 piece patterns (normal / non-ASCII / \\\\27 / \\\\5c / \\\\5C, up to 3 pieces) in the first quoted string", "spacing": "every SP position set to 2 and 3, every WSP position set to 0 and 2, one position at a time", "totality": "2 symbolic characters (U+0000..U+07FF) replacing every position of 6 sentences"},
    "thorough": {"spacing": "quick + all pairs of positions for the full sentences", "totality": "all 16 sentences, replace and insert"},
}
OUTSIDE = ["lower-case keywords (ABNF literals are case-insensitive; the property limits itself to upper-case)", "lists longer than 2", "more than one symbolic numeric OID / descriptor per sentence (the others are distinct constants)"]
ASSUMPTIONS = ["the reference semantics of a sentence is computed by the generator, from RFC 4512 section 4.1"]
EXPLANATION = "symbolic execution of the real from_string (description regex through the sre-order matcher + post-processing) on grammar sentences with symbolic holes; field equality is a z3 validity query"


def _positions(spec):
    """number of SP/WSP occurrences of a spec (dry run of the generator on a counting context)"""
    import importlib

    from sx import harness as H, loader

    loader.load_real()
    lib = H.Lib(lambda n: importlib.import_module(f"sansldap.{n}"), None)

    class Dry(H.RealCtx):
        def str(self, name, n, lo=0, hi=0x10FFFF, surrogates=False):
            if lo <= 0x30 <= hi and hi <= 0x39:
                return "1.2.3"[:n] if n >= 3 else "1.2"
            if lo == 0x2D:
                return "ab"[:n]
            return "x" * n

        def assume(self, c):
            return

    _, _, g = SGm.gen(Dry(lib, {}), spec)
    return g.positions


def units(tier):
    us = []
    specs = SGm.base_specs()
    for name, spec in specs:
        us.append({"name": f"base_{name}", "shape": {"kind": "sent", "spec": spec}})
        has_q = spec.get("desc") or any(f[0] == "single" or f[1] > 0 for _, f in spec.get("exts", []))
        if has_q:
            for ri, rich in enumerate(SGm.RICH):
                sp = dict(spec)
                sp["rich"] = rich
                us.append({"name": f"rich{ri}_{name}", "shape": {"kind": "sent", "spec": sp}})
        pos = _positions(spec)
        for kind, i in pos:
            for v in ((2, 3) if kind == "SP" else (0, 2)):
                sp = dict(spec)
                sp["spv"] = {str(i): v}
                us.append({"name": f"sp{i}={v}_{name}", "shape": {"kind": "sent", "spec": sp}})
        if tier == "thorough" and name.endswith("_full"):
            for a in range(len(pos)):
                for b in range(a + 1, len(pos)):
                    sp = dict(spec)
                    sp["spv"] = {str(pos[a][1]): 2 if pos[a][0] == "SP" else 0, str(pos[b][1]): 3 if pos[b][0] == "SP" else 2}
                    us.append({"name": f"sp{a}+{b}_{name}", "shape": {"kind": "sent", "spec": sp}})
        if tier == "thorough":
            for ol in (4, 5):
                sp = dict(spec)
                sp["oidlen"] = ol
                us.append({"name": f"oid{ol}_{name}", "shape": {"kind": "sent", "spec": sp}})
    us.append({"name": "long_sentence_1200", "shape": {"kind": "long", "n": 1200, "spec": {"cls": "oc"}}})
    k = 0
    for u in us:
        if u["shape"]["kind"] == "sent":
            k += 1
            if k % 5 == 0:
                u["shape"]["again"] = True
    tot = [s for s in specs if s[0] in ("oc_full", "at_full", "dcr_full", "oc_min", "at_syntax_quoted", "oc_ext_empty")] if tier == "quick" else specs
    for name, spec in tot:
        n = len(_concrete_sentence(spec))
        for off in range(0, n - 1):
            us.append({"name": f"tot_{name}_o{off}", "shape": {"kind": "tot", "spec": spec, "off": off, "mode": "replace"}})
            if tier == "thorough" and off % 2 == 0:
                us.append({"name": f"totins_{name}_o{off}", "shape": {"kind": "tot", "spec": spec, "off": off, "mode": "insert"}})
    return us


def _concrete_sentence(spec):
    import importlib

    from sx import harness as H, loader

    loader.load_real()
    lib = H.Lib(lambda n: importlib.import_module(f"sansldap.{n}"), None)
    return _sentence(H.RealCtx(lib, {}), spec)


def _sentence(ctx, spec):
    """a fully concrete instance of the spec (default hole values)"""

    class Fixed:
        def __getattr__(self, k):
            return getattr(ctx, k)

        def str(self, name, n, lo=0, hi=0x10FFFF, surrogates=False):
            if hi <= 0x39:
                return ("1.2.3.4.5")[:n] if n % 2 else ("1.23.4.5")[:n]
            if lo == 0x2D:
                return "ab"[:n]
            return "x" * n

        def int(self, name, lo=None, hi=None):
            return 64

        def assume(self, c):
            return

    text, _, _ = SGm.gen(Fixed(), spec)
    return text


def _long(ctx, shape):
    """a grammar sentence with thousands of list members / extensions (flat repetition)"""
    S = ctx.L.schema
    n = shape["n"]

    def alpha(i):
        out = ""
        while True:
            out = chr(65 + i % 26) + out
            i //= 26
            if not i:
                return "E" + out

    names = [f"n{i}" for i in range(n)]
    oids = " $ ".join(names)
    text = "( 1.2 NAME ( " + " ".join(f"'{x}'" for x in names) + f" ) SUP ( {oids} ) MUST ( {oids} ) X-A ( " + " ".join(f"'v{i}'" for i in range(n)) + " ) " + " ".join(f"X-{alpha(i)} 'x'" for i in range(n)) + " )"
    try:
        got = S.ObjectClassDescription.from_string(text)
    except Exception as e:  # noqa: BLE001
        ctx.fail("long-grammar-sentence-rejected", f"{type(e).__name__}@{exc_site(e)}")
    exp_ext = {"A": [f"v{i}" for i in range(n)], **{alpha(i): ["x"] for i in range(n)}}
    ctx.require(got.names == names and got.super_types == names and got.must == names and got.extensions == exp_ext, "long-sentence-fields-differ-from-grammar")


def body(ctx, shape):
    if shape.get("kind") == "long":
        return _long(ctx, shape)
    spec = shape["spec"]
    C = SGm.klass(ctx, spec["cls"])
    if shape["kind"] == "sent":
        text, expected, _ = SGm.gen(ctx, spec)
        ctx.observe("text", text)
        try:
            got = C.from_string(text)
        except Exception as e:  # noqa: BLE001
            ctx.observe("exc", type(e).__name__)
            ctx.fail("grammar-sentence-rejected", f"{type(e).__name__}@{exc_site(e)}")
        import dataclasses

        for f in dataclasses.fields(expected):
            ctx.require(ctx.eq(getattr(got, f.name), getattr(expected, f.name)), "field-differs-from-grammar:" + f.name)
        if shape.get("again"):
            # hidden state: scribble over the first result, parse other (valid and rejected) text,
            # then the same sentence must denote the same definition again
            for v in vars(got).values():
                if isinstance(v, list):
                    v.append("scribble")
                elif isinstance(v, dict):
                    v["scribble"] = ["x"]
            for other in ("( 9.9 NAME ( 'zz' 'yy' ) DESC 'other' OBSOLETE X-q ( 'r' 's' ) )", "( 9.9 DESC 'x )", ""):
                try:
                    C.from_string(other)
                except ValueError:
                    pass
            try:
                got2 = C.from_string(text)
            except Exception as e:  # noqa: BLE001
                ctx.fail("second-parse-of-the-same-sentence-rejected", f"{type(e).__name__}@{exc_site(e)}")
            for f in dataclasses.fields(expected):
                ctx.require(ctx.eq(getattr(got2, f.name), getattr(expected, f.name)), "second-parse-differs-from-grammar:" + f.name)
        return
    sent = _sentence(ctx, spec)
    off = shape["off"]
    w = ctx.str("w", 2, 0, 0x7FF)
    s = sent[:off] + w + (sent[off + 2 :] if shape["mode"] == "replace" else sent[off:])
    try:
        C.from_string(s)
        ctx.observe("accepted", True)
    except Exception as e:  # noqa: BLE001
        ctx.observe("exc", type(e).__name__)
        if not isinstance(e, ValueError):
            ctx.fail("parser-raises-foreign-exception", f"{type(e).__name__}@{exc_site(e)}")
