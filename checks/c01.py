"""C01 - every LDAP message survives encode -> decode unchanged.

For each enumerated skeleton (kind x optionals x list lengths x filter tree x control forms) every
content value is symbolic: m = build(skeleton); b = m.pack(); m2 = unpack_ldap_message(b + tail).
Obligations (z3, per path): m2 == m field by field (raw value of known controls excepted), the
reader stops exactly at the symbolic sentinel tail, m2.pack() == b.
"""
from checks import msgs
from sx.harness import exc_site

PROPERTY = "C01"
LEVEL = "model_checking"
OPTIONS = {"quick": {"max_paths": 50000, "unit_budget_s": 600}, "thorough": {"max_paths": 500000, "unit_budget_s": 3000}}
BOUNDS = {
    "quick": {"ints": "|v| < 2^63, every value symbolic (message id, version, limits, page size); result code: any value 0..2^31-1 (member / non-member)", "text": "1 symbolic printable-ASCII char per text field, plus each text field in turn 2 code points over all Unicode scalar values", "octets": "2 symbolic octets per octet-string field; thresholds 127/128/256/65536 one field at a time", "lists": "0..2 elements", "filters": "every leaf form, and/or/not over leaves, two depth-3 trees, not^40 and and/or^40 chains", "controls": "0..2 controls of every form (generic +/- value, paged, show-deleted, show-deactivated)"},
    "thorough": {"ints": "|v| < 2^127", "text": "rich field 3 code points", "octets": "thresholds 127/128/255/256/65535/65536 in every octet-string position", "lists": "0..2", "filters": "quick set + and/not over every leaf form + depth 4", "controls": "same"},
}
OUTSIDE = ["lists longer than 2, text longer than 3 code points, filter depth beyond 40", "custom registered types (C19)", "text containing lone surrogates (not encodable in UTF-8; pack raises UnicodeEncodeError)"]
ASSUMPTIONS = ["text fields hold Unicode scalar values (encodable as UTF-8)", "enumerated fields hold members of their enum (scope, deref) or any int (result code)"]
EXPLANATION = "symbolic execution of pack and unpack_ldap_message on symbolic field contents; obligations are z3 validity queries over all contents"


def units(tier):
    us = [{"name": n, "shape": {"skel": s}} for n, s in msgs.skeletons(tier)]
    for n, s in msgs.skeletons(tier):
        if n in ("bind_request_simple", "search_done_refNone", "extended_request_v1", "search_entry_1_2", "unbind"):
            us.append({"name": "afterfail_" + n, "shape": {"skel": s, "after_failure": True}})
    return us


def body(ctx, shape):
    M, A = ctx.L.messages, ctx.L.asn1
    m = msgs.build(ctx, shape["skel"])
    opts = M.PackingOptions()
    tail = ctx.bytes("tail", 1)
    try:
        b = m.pack(opts)
    except Exception as e:  # noqa: BLE001
        ctx.fail("pack-raises", f"{type(e).__name__}@{exc_site(e)}")
    ctx.observe("bytes", b)
    rd = A.ASN1Reader(b + tail)
    try:
        m2 = M.unpack_ldap_message(rd, opts)
    except Exception as e:  # noqa: BLE001
        ctx.observe("unpack-exc", type(e).__name__)
        ctx.fail("unpack-raises", f"{type(e).__name__}@{exc_site(e)}")
    ctx.require(msgs.msg_eq(ctx, m2, m), "decoded-differs")
    ctx.require(ctx.eq(rd.get_remaining_data(), tail), "consumed-not-exact")
    try:
        b2 = m2.pack(opts)
    except Exception as e:  # noqa: BLE001
        ctx.fail("repack-raises", f"{type(e).__name__}@{exc_site(e)}")
    ctx.require(ctx.eq(b2, b), "reencode-differs")
    # the message is the caller's and its lists are mutable: an encoding computed earlier must not
    # be handed out again after a change (controls is a list on every message kind)
    m.controls.append(ctx.L.controls.LDAPControl("1.2.3", False, None))
    try:
        b4 = m.pack(opts)
        m4 = M.unpack_ldap_message(A.ASN1Reader(b4), opts)
    except Exception as e:  # noqa: BLE001
        ctx.fail("pack-of-the-changed-message-raises", f"{type(e).__name__}@{exc_site(e)}")
    ctx.require(msgs.msg_eq(ctx, m4, m), "encoding-does-not-follow-a-change-of-the-message")
    m.controls.pop()
    if shape.get("after_failure"):
        # pack() is a function of the message: an earlier pack() that failed half-way (a value of
        # the wrong type deep inside another message) must leave nothing behind
        bad = M.SearchResultEntry(7, [], "cn=x", [M.PartialAttribute("a", [b"ok", "not-bytes"])])
        try:
            bad.pack(opts)
        except Exception:  # noqa: BLE001
            pass
        try:
            b3 = m.pack(opts)
        except Exception as e:  # noqa: BLE001
            ctx.fail("pack-after-failed-pack-raises", f"{type(e).__name__}@{exc_site(e)}")
        ctx.require(ctx.eq(b3, b), "pack-after-a-failed-pack-differs")
