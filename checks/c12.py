"""C12 - session rules, decided on the real LDAPClient/LDAPServer objects (see checks/sess.py).

Inductive step: one public call with symbolic arguments from an arbitrary pre-state satisfying
the representation invariant (reached through the public API in every replay); bounded model
checking: every sequence of k calls from a fresh session.  Post-conditions come from the
documented state machine in checks/sess.py (ghost model), evaluated by z3 for all ids / result
codes / drain amounts / buffer contents.
"""
from checks import sess

PROPERTY = "C12"
LEVEL = "model_checking"
OPTIONS = {"quick": {"max_paths": 20000, "unit_budget_s": 600}, "thorough": {"max_paths": 100000, "unit_budget_s": 1800, "validate_every": 3}}
DEPTH = {"quick": 2, "thorough": 4}
BOUNDS = {
    "quick": {"inductive_step": "pre-states: 4 states x <= 2 outstanding operations (each search or not; on the server also ids that are in the search registry but no longer outstanding) with symbolic distinct ids <= 60, symbolic counter <= 61; one call of each of the 24 client / 20 server operations (18/14 plain + 6/6 carrying a paged-results control with a symbolic cookie) with symbolic id, result code 0..80, drain amount -4..40 or None", "bmc": "every sequence of 2 operations from a fresh client and a fresh server; every sequence of 3 over the send/receive/drain operations (several messages pending, symbolic drain amounts -4..40); 64 sequences with a 10 KiB message pending and three drains of threshold + 0..2 octets (thresholds 0, 1024, 4096, 6000)"},
    "thorough": {"inductive_step": "same", "bmc": "every sequence of 2 and 3 operations; every sequence of 4 over the send/receive/drain operations"},
}
OUTSIDE = ["more than 2 simultaneously outstanding operations in the inductive step", "ids above 60 (multi-octet INTEGER encodings are C01/C07's subject)", "a response whose kind does not match the operation its id belongs to (not specified by the property)"]
ASSUMPTIONS = ["symbolic pre-states are injected into the session attributes; every real-mode run (path validation, replay) reaches the same abstract state through public calls only", "pending output is observed by draining a deep copy of the session (public API only); pending octets arise from real sends (BMC sequences), never by injection"]
EXPLANATION = "symbolic execution of one/k session calls; post-conditions from an independent ghost model are z3 validity queries"
PROPS = ("C12",)


DRAIN_OPS = {"client": ["extended", "search", "search_unencodable", "drain", "drain_none"], "server": ["recv_extended_request", "recv_search_request", "extended_response", "search_entry", "drain", "drain_none"]}


def units(tier):
    import itertools

    us = sess.step_units(tier) + sess.bmc_units(tier, 2) + (sess.bmc_units(tier, 3) if tier != "quick" else [])
    # longer histories over the operations that matter for draining: several messages pending,
    # drains that end inside any of them
    k = 3 if tier == "quick" else 4
    for side, ops in DRAIN_OPS.items():
        for seq in itertools.product(ops, repeat=k):
            if sum(1 for o in seq if o.startswith("drain")) < 1 or seq[0].startswith("drain"):
                continue
            us.append({"name": f"drainseq_{side}_" + "+".join(seq), "shape": {"kind": "bmc", "side": side, "ops": list(seq)}})
    # a message of more than ten thousand octets pending, drained in pieces whose sizes sit on
    # and around thresholds (0, 1 KiB, 4 KiB, 6000; each + 0..2 symbolic), then a drain of the
    # rest: every piece must be the next part of the stream, nothing lost or repeated
    for a, b, c in itertools.product(BIG_DRAINS, repeat=3):
        ops = ["extended", "extended_big", "extended", f"drainK{a}", f"drainK{b}", f"drainK{c}", "extended", "drain_none"]
        us.append({"name": f"bigdrain_client_{a}+{b}+{c}", "shape": {"kind": "bmc", "side": "client", "ops": ops}})
    return us


BIG_DRAINS = (0, 1024, 4096, 6000)


def body(ctx, shape):
    if shape["kind"] == "step":
        return sess.run_step(ctx, shape, PROPS)
    return sess.run_bmc(ctx, shape, PROPS)
