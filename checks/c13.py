"""C13 - filter objects survive conversion to text and back (no filter injection).

Trees of enumerated shape; attribute descriptions / matching rules are symbolic strings *assumed*
to be RFC 4512-valid (membership formula from oracles/relang.py, all valid strings of the given
length); assertion values are symbolic octets, every one of the 256 values each.
Obligations: from_string(str(f)) == f, and str(f) belongs to the RFC 4515 regular language of its
shape (so every NUL ( ) * \\ inside a value is written as an escape).
"""
from oracles import relang
from sx.harness import exc_site

PROPERTY = "C13"
LEVEL = "model_checking"
OPTIONS = {"quick": {"max_paths": 100000, "unit_budget_s": 900}, "thorough": {"max_paths": 1000000, "unit_budget_s": 3000}}
BOUNDS = {
    "quick": {"values": "0..3 symbolic octets per assertion value / substring component (all 256 values each)", "attributes": "every RFC 4512 attribute description of length 1..3 (symbolic, incl. options) in one leaf at a time, a symbolic letter elsewhere", "trees": "every leaf kind alone; and/or/not over leaves; and/or with members of the same kind (equal members included); depth-3 mixes; not^40 / and-or^40 chains", "substrings": "every presence combination of initial / 0..2 any / final (at least one component, components non-empty)"},
    "thorough": {"values": "0..4 octets", "attributes": "length 1..5", "trees": "quick + every leaf under and/not, fan-out 2 of every leaf pair subset"},
}
OUTSIDE = ["values longer than 4 octets (the escaping is per octet; adjacency effects need <= 2 neighbours)", "fan-out > 2, depth > 40", "filters outside RFC 4515's value space: empty and/or, substring filters with no or empty components, extensible match with neither attribute nor rule, matching rule spelled 'dn' (documented preconditions)"]
ASSUMPTIONS = ["attribute descriptions and matching rules are valid per RFC 4512 (assumed through a membership formula, not sampled)", "and/or have >= 1 member (RFC 4511 SET SIZE (1..MAX))"]
EXPLANATION = "symbolic execution of the real __str__ and from_string; equality of the re-parsed tree and membership of the text in the RFC 4515 language are z3 validity queries"


LEAF_KINDS = ["eq", "ge", "le", "approx", "present", "ext_ar", "ext_a", "ext_r", "ext_adn", "ext_rdn", "ext_ardn",
              "sub_i", "sub_a", "sub_f", "sub_ia", "sub_if", "sub_af", "sub_iaf", "sub_aa", "sub_iaaf"]


def units(tier):
    us = []
    vmax = 3 if tier == "quick" else 4
    amax = 3 if tier == "quick" else 5

    def add(name, spec, **kw):
        us.append({"name": name, "shape": dict(spec=spec, **kw)})

    for lk in LEAF_KINDS:
        nvals = len(lk) - 4 if lk.startswith("sub_") else 1
        for vi in range(nvals):
            for vl in range(0 if not lk.startswith("sub") else 1, vmax + 1):
                if vi > 0 and vl == 1:
                    continue
                if tier == "quick" and lk == "sub_iaaf" and vl == 3:
                    continue  # (four components: values up to 2 octets in the quick tier)
                add(f"leaf_{lk}_v{vl}" + (f"_i{vi}" if vi else ""), [lk], vlen=vl, alen=1, vidx=vi)
        for al in range(2, amax + 1):
            add(f"leaf_{lk}_a{al}", [lk], vlen=1, alen=al)
    for i, lk in enumerate(LEAF_KINDS):
        add(f"not_{lk}", ["not", [lk]], vlen=2, alen=1)
        add(f"and1_{lk}", ["and", [[lk]]], vlen=2, alen=1)
        other = LEAF_KINDS[(i + 7) % len(LEAF_KINDS)]
        add(f"or2_{lk}_{other}", ["or", [[lk], [other]]], vlen=1, alen=1)
    # members of the same kind: with symbolic contents they can be EQUAL (and/or are lists for the
    # caller; a repeated member must survive)
    for lk in ("eq", "present", "sub_a", "ext_ar", "approx"):
        add(f"and2_same_{lk}", ["and", [[lk], [lk]]], vlen=1, alen=1)
    add("or3_same_eq", ["or", [["eq"], ["present"], ["eq"]]], vlen=1, alen=1)
    add("d3a", ["and", [["or", [["eq"], ["not", ["sub_iaf"]]]], ["ext_ardn"]]], vlen=1, alen=1)
    add("d3b", ["not", ["and", [["or", [["present"]]], ["approx"]]]], vlen=2, alen=2)
    chain = ["eq"]
    for _ in range(40):
        chain = ["not", chain]
    add("not40", chain, vlen=2, alen=1)
    chain = ["sub_if"]
    for i in range(40):
        chain = ["and" if i % 2 else "or", [chain]]
    add("andor40", chain, vlen=1, alen=1)
    # fully concrete instances (no solver variable): they keep the cheap end of the property
    # observable even if a change makes the symbolic run of the parser intractable
    for i, (spec, vb, at) in enumerate([
        (["and", [["eq"], ["or", [["sub_iaf"], ["present"]]]]], "a*(b)\\\x00\xff", "cn;lang-en"),
        (["not", ["ext_ardn"]], "*", "2.5.4.3"),
        (["or", [["ge"], ["le"], ["approx"], ["sub_aa"]]], " x ", "o"),
        (["and", [["eq"], ["present"], ["eq"], ["not", ["eq"]], ["not", ["eq"]]]], "v", "cn"),
    ]):
        add(f"concrete{i}", spec, vlen=1, alen=1, concrete=[vb, at])
    # values that look like OTHER escape syntaxes next to octets that need this one (concrete)
    for i, vb in enumerate(["%2a)", "100%25 (x)", "%5c\\", "\\2a%2a", "&#40;(", "=28)=", "+ (+)", "a%00*", "''(", "\\\\5c", "%zz)", "\x00%00", "*%2A*"]):
        add(f"escape_lookalike{i}", ["and", [["eq"], ["sub_iaf"], ["ext_ar"]]], vlen=1, alen=1, concrete=[vb, "cn"])
    add("history_of_failures", ["and", [["eq"], ["not", ["sub_iaf"]]]], vlen=1, alen=1, history=12000 if tier == "quick" else 40000)
    if tier == "thorough":
        for a in LEAF_KINDS[::2]:
            for b in LEAF_KINDS[1::3]:
                add(f"and2_{a}_{b}", ["and", [[a], [b]]], vlen=2, alen=1)
    us.append({"name": "long_tree_1500", "shape": {"kind": "long", "n": 1500, "spec": ["or"], "vlen": 1, "alen": 1}})
    return us


class G:
    def __init__(self, ctx, shape):
        self.ctx = ctx
        self.shape = shape
        self.vlen = shape["vlen"]
        self.alen = shape["alen"]
        self.n = 0
        self.first_attr = True
        self.vidx = shape.get("vidx", 0)  # which value gets the full length; the others get 1 octet
        self.vcount = 0

    def name(self, p):
        self.n += 1
        return f"{p}{self.n}"

    def attr(self, rule=False, dn=False):
        ctx = self.ctx
        if self.shape.get("concrete"):
            return "caseExactMatch" if rule else self.shape["concrete"][1]
        n = self.alen if self.first_attr else 1
        self.first_attr = False
        s = ctx.str(self.name("a"), n, 0x20, 0x7E)
        ctx.assume(relang.member(ctx, s, relang.OID if rule else relang.ATTRDESC))
        if rule and n == 2 and not dn:
            # without the dn keyword RFC 4515 cannot express a matching rule spelled "dn" (it reads as the keyword)
            ctx.assume(ctx.neg(ctx.all(ctx.any(_c(ctx, s, 0) == 100, _c(ctx, s, 0) == 68), ctx.any(_c(ctx, s, 1) == 110, _c(ctx, s, 1) == 78))))
        return s

    def val(self, nonempty=False):
        if self.shape.get("concrete"):
            return self.shape["concrete"][0].encode("latin-1")
        i = self.vcount
        self.vcount += 1
        n = self.vlen if i == self.vidx else 1
        if nonempty:
            n = max(n, 1)
        return self.ctx.bytes(self.name("v"), n)


def _c(ctx, s, i):
    if ctx.mode == "real":
        return ord(s[i])
    from sx import shims

    return shims.sx_ord(s[i])


def build(g, F, spec):
    k = spec[0]
    if k in ("and", "or"):
        subs = [build(g, F, s) for s in spec[1]]
        return (F.FilterAnd if k == "and" else F.FilterOr)(subs)
    if k == "not":
        return F.FilterNot(build(g, F, spec[1]))
    if k in ("eq", "ge", "le", "approx"):
        cls = {"eq": F.FilterEquality, "ge": F.FilterGreaterOrEqual, "le": F.FilterLessOrEqual, "approx": F.FilterApproxMatch}[k]
        return cls(g.attr(), g.val())
    if k == "present":
        return F.FilterPresent(g.attr())
    if k.startswith("ext_"):
        f = k[4:]
        has_a = "a" in f.replace("dn", "")
        has_r = "r" in f.replace("dn", "")
        return F.FilterExtensibleMatch(g.attr(rule=True, dn=f.endswith("dn")) if has_r else None, g.attr() if has_a else None, g.val(), f.endswith("dn"))
    if k.startswith("sub_"):
        f = k[4:]
        ini = g.val(True) if f.startswith("i") else None
        anys = [g.val(True) for _ in range(f.count("a"))]
        fin = g.val(True) if f.endswith("f") else None
        return F.FilterSubstrings(g.attr(), ini, anys, fin)
    raise ValueError(k)


V = relang.ASSERTION_VALUE
V1 = rf"(?:[^\x00()*\\]|\\{relang.HEX}{relang.HEX})+"
A = relang.ATTRDESC
R = relang.OID


def shape_regex(spec):
    """the RFC 4515 regular language of all filters with this tree shape"""
    k = spec[0]
    if k in ("and", "or"):
        return r"\(" + ("&" if k == "and" else r"\|") + "".join(shape_regex(s) for s in spec[1]) + r"\)"
    if k == "not":
        return r"\(!" + shape_regex(spec[1]) + r"\)"
    if k in ("eq", "ge", "le", "approx"):
        op = {"eq": "=", "ge": ">=", "le": "<=", "approx": "~="}[k]
        return rf"\({A}{op}{V}\)"
    if k == "present":
        return rf"\({A}=\*\)"
    if k.startswith("ext_"):
        f = k[4:]
        has_a = "a" in f.replace("dn", "")
        has_r = "r" in f.replace("dn", "")
        return r"\(" + (A if has_a else "") + (":dn" if f.endswith("dn") else "") + (":" + R if has_r else "") + ":=" + V + r"\)"
    if k.startswith("sub_"):
        f = k[4:]
        body = (V1 if f.startswith("i") else "") + r"\*" + "".join(V1 + r"\*" for _ in range(f.count("a"))) + (V1 if f.endswith("f") else "")
        return rf"\({A}={body}\)"
    raise ValueError(k)


def _scribble(F, f):
    """mutate every list inside a parsed tree (the dataclasses are frozen, their lists are not)"""
    n = type(f).__name__
    if n in ("FilterAnd", "FilterOr"):
        for x in list(f.filters):
            _scribble(F, x)
        f.filters.append(F.FilterPresent("scribble"))
    elif n == "FilterNot":
        _scribble(F, f.filter)
    elif n == "FilterSubstrings":
        f.any.append(b"scribble")


def _grow(F, f):
    """append a member to every and/or list and every substrings 'any' list; -> changed anything"""
    n = type(f).__name__
    if n in ("FilterAnd", "FilterOr"):
        for x in list(f.filters):
            _grow(F, x)
        f.filters.append(F.FilterPresent("zz"))
        return True
    if n == "FilterNot":
        return _grow(F, f.filter)
    if n == "FilterSubstrings":
        f.any.append(b"zz")
        return True
    return False


def body(ctx, shape):
    if shape.get("kind") == "long":
        from checks import c14

        return c14._long(ctx, shape)
    F = ctx.L.filter
    g = G(ctx, shape)
    f = build(g, F, shape["spec"])
    try:
        text = ctx.text(f)
    except Exception as e:  # noqa: BLE001
        ctx.fail("str-raises", f"{type(e).__name__}@{exc_site(e)}")
    ctx.observe("text", text)
    try:
        f2 = F.LDAPFilter.from_string(text)
    except Exception as e:  # noqa: BLE001
        ctx.observe("exc", type(e).__name__)
        ctx.fail("text-form-rejected", f"{type(e).__name__}@{exc_site(e)}")
    ctx.require(ctx.eq(f2, f), "reparsed-filter-differs")
    # the parsed tree belongs to the caller: changing it, or earlier rejected input, must not
    # influence what the same text parses to afterwards
    _scribble(F, f2)
    for bad in ("(", "(&(a=b)", "(a=\\zz)", "((a=b))", "(!(a=b)(c=d))", "a"):
        # (one unit repeats this tens of thousands of times: the outcome of a parse must not depend
        # on how many earlier inputs were rejected)
        for _ in range(3 if not shape.get("history") else shape["history"] // 6):
            try:
                F.LDAPFilter.from_string(bad)
            except ValueError:
                pass
    try:
        f3 = F.LDAPFilter.from_string(text)
    except Exception as e:  # noqa: BLE001
        ctx.fail("second-parse-of-the-same-text-rejected", f"{type(e).__name__}@{exc_site(e)}")
    ctx.require(ctx.eq(f3, f), "second-parse-of-the-same-text-differs")
    if len(text) <= 60:
        ctx.require(relang.member(ctx, text, shape_regex(shape["spec"])), "text-form-not-rfc4515")
    # the tree is the caller's and its member lists are mutable: after a change the text form has
    # to follow (a text computed earlier must not be handed out again)
    if shape["vlen"] <= 2 and _grow(F, f):
        try:
            f5 = F.LDAPFilter.from_string(ctx.text(f))
        except Exception as e:  # noqa: BLE001
            ctx.fail("text-form-of-the-changed-tree-rejected", f"{type(e).__name__}@{exc_site(e)}")
        ctx.require(ctx.eq(f5, f), "text-form-does-not-follow-a-change-of-the-tree")
