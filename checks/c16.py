"""C16 - schema definitions survive conversion to text and back.

Objects of the three description classes are built for a covering set of field-presence
combinations; OIDs / descriptors are symbolic under the RFC 4512 membership formulas, description
and extension strings are 1..3 symbolic code points over ALL scalar values (so quote, backslash,
'|', newline, non-BMP ... are covered by the solver, not picked), the syntax length is a symbolic
int.  Obligation: from_string(str(d)) == d.
"""
from checks import schema_gen as SGm
from sx.harness import exc_site

PROPERTY = "C16"
LEVEL = "model_checking"
OPTIONS = {"quick": {"max_paths": 100000, "unit_budget_s": 600}, "thorough": {"max_paths": 1000000, "unit_budget_s": 3000}}
BOUNDS = {
    "quick": {"field combinations": "16 covering specs (every clause present/absent, single and list forms, 0..2 extensions with 0..2 values)", "strings": "description and first extension value: 1..3 code points over all scalar values; other quoted strings 1 code point", "oids": "numeric OIDs of length 3 (symbolic digits), descriptors of 1..2 characters", "syntax length": "0..9999 symbolic"},
    "thorough": {"strings": "1..4 code points", "oids": "first numeric OID of length 3..5"},
}
OUTSIDE = ["lists longer than 2", "empty description / extension text (the property asks for non-empty text)", "extension names other than the concrete ones used (they are dictionary keys)"]
ASSUMPTIONS = ["oid / descriptor fields satisfy RFC 4512 (assumed via membership formula)"]
EXPLANATION = "symbolic execution of the real __str__ and from_string (incl. the description regexes through the sre-order matcher); equality is a z3 validity query"


def units(tier):
    us = []
    nmax = 3 if tier == "quick" else 4
    for name, spec in SGm.base_specs():
        if spec.get("syntax") == "quoted":
            continue  # the quoted SYNTAX form is an input-only variant
        has_q = spec.get("desc") or any(f[0] == "single" or f[1] > 0 for _, f in spec.get("exts", []))
        many = len(spec.get("exts", [])) >= 3  # (three extensions: 3 free characters in each of 4 strings is thorough-tier work)
        for n in range(1, ((nmax - 1 if many and tier == "quick" else nmax) if has_q else 1) + 1):
            sp = dict(spec)
            sp["free"] = True
            sp["rich"] = ["c"] * n
            us.append({"name": f"{name}_q{n}", "shape": {"spec": sp}})
        if tier == "thorough":
            for ol in (4, 5):
                sp = dict(spec)
                sp.update(free=True, oidlen=ol)
                us.append({"name": f"{name}_oid{ol}", "shape": {"spec": sp}})
    us.append({"name": "long_lists_1200", "shape": {"kind": "long", "n": 1200}})
    return us


def _long(ctx, shape):
    """long flat lists (thousands of names / oids / extension values / extensions): the text form
    must still parse back to an equal definition - recursion or work that grows with the count"""
    S = ctx.L.schema
    n = shape["n"]
    names = [f"n{i}" for i in range(n)]
    def alpha(i):  # extension names are letters, hyphens and underscores only
        out = ""
        while True:
            out = chr(65 + i % 26) + out
            i //= 26
            if not i:
                return "E" + out

    exts = {"A": [f"v{i}" for i in range(n)], **{alpha(i): ["x"] for i in range(n)}}
    objs = [
        S.ObjectClassDescription(oid="1.2", names=names, super_types=list(names), must=list(names), may=list(names), extensions=dict(exts)),
        S.AttributeTypeDescription(oid="1.2", names=names, extensions=dict(exts)),
        S.DITContentRuleDescription(oid="1.2", names=names, aux=list(names), must=list(names), may=list(names), never=list(names), extensions=dict(exts)),
    ]
    for obj in objs:
        try:
            back = type(obj).from_string(str(obj))
        except Exception as e:  # noqa: BLE001
            ctx.fail("long-definition-text-form-rejected", f"{type(obj).__name__}:{type(e).__name__}@{exc_site(e)}")
        ctx.require(back == obj, "long-definition-reparsed-differs")


def body(ctx, shape):
    if shape.get("kind") == "long":
        return _long(ctx, shape)
    spec = shape["spec"]
    _, obj, _ = SGm.gen(ctx, spec)
    C = SGm.klass(ctx, spec["cls"])
    try:
        text = ctx.text(obj)
    except Exception as e:  # noqa: BLE001
        ctx.fail("str-raises", f"{type(e).__name__}@{exc_site(e)}")
    ctx.observe("text", text)
    try:
        back = C.from_string(text)
    except Exception as e:  # noqa: BLE001
        ctx.observe("exc", type(e).__name__)
        ctx.fail("text-form-rejected", f"{type(e).__name__}@{exc_site(e)}")
    ctx.require(ctx.eq(back, obj), "reparsed-definition-differs")
    # hidden state: the first result is the caller's (its lists and dict are mutable), and rejected
    # input in between must not matter - the same text has to parse to the same definition again
    for v in vars(back).values():
        if isinstance(v, list):
            v.append("scribble")
        elif isinstance(v, dict):
            v["scribble"] = ["x"]
            for lst in v.values():
                if isinstance(lst, list):
                    lst.append("scribble")
    for bad in ("", "(", "( 1.2 DESC 'x )", "( 1.2 X-a ( 'b' )"):
        try:
            C.from_string(bad)
        except ValueError:
            pass
    try:
        again = C.from_string(text)
    except Exception as e:  # noqa: BLE001
        ctx.fail("second-parse-of-the-same-text-rejected", f"{type(e).__name__}@{exc_site(e)}")
    ctx.require(ctx.eq(again, obj), "second-parse-of-the-same-text-differs")
    # the definition is the caller's and its lists / extension dict are mutable: after a change
    # the text form has to follow (a text computed earlier must not be handed out again)
    changed = False
    for k, v in vars(obj).items():
        if isinstance(v, list) and k != "extensions":
            v.append("zz")
            changed = True
        elif isinstance(v, dict):
            v["ZZ"] = ["v"]
            changed = True
    if changed:
        try:
            back3 = C.from_string(ctx.text(obj))
        except Exception as e:  # noqa: BLE001
            ctx.fail("text-form-of-the-changed-definition-rejected", f"{type(e).__name__}@{exc_site(e)}")
        ctx.require(ctx.eq(back3, obj), "text-form-does-not-follow-a-change-of-the-definition")
