"""C18 - parsing cost grows polynomially with input size.

(1) RX (rx/rx.py): every regular expression the library compiles (captured at import and at call
    time from the current tree) is translated to sre's backtracking automaton; a z3 Fixedpoint
    (Datalog) query over the product automaton decides whether any fork state can return to itself
    along two different runs on the same non-empty word (exponential degree of ambiguity).  No
    bound on the pump length.  A positive is turned into an attack string and timed on the real
    `re` before it is reported.
(2) SX: the hand-written recursive-descent scanner of the filter parser, for every string of
    length <= N (symbolic characters): every recursive call makes progress (1 <= consumed <=
    length), receives a strictly shorter interval than its parent, and the ranges consumed by
    sibling calls are disjoint, in order and inside the parent's interval.  From these obligations
    the O(n * depth) <= O(n^2) bound follows by the induction written in DESIGN.md (argued, not
    mechanised).
"""
import hashlib
import json
import os
import time

from sx import runner  # noqa: E402

PROPERTY = "C18"
LEVEL = "model_checking"
OPTIONS = {"quick": {"max_paths": 200000, "unit_budget_s": 600}, "thorough": {"max_paths": 2000000, "unit_budget_s": 3300}}
BOUNDS = {
    "quick": {"regex": "all compiled patterns, pump length unbounded (fixpoint)", "scanner": "all strings of length <= 5 over code points < U+0800", "receive": "17 seed messages + one trailing element with symbolic tag / content; termination under a 10 s per-path watchdog", "big_integers": "4 seed messages x every constructed value + one appended element whose tag number is any value below 2**42 (six symbolic identifier octets): no left shift by an input-chosen amount that can exceed 2**20 bits"},
    "thorough": {"regex": "same", "receive": "same", "big_integers": "same", "scanner": "all strings of length <= 7 over code points < U+0800, length <= 5 over all scalar values"},
}
OUTSIDE = [
    "polynomial ambiguity of degree > 2 in the regular expressions is not decided (only exponential ambiguity)",
    "wall-clock time is only measured when replaying a witness",
    "the residue re-parse cost of receive() (linear per call in residue + chunk) is argued from C02's lemma, not measured symbolically",
    "nesting deep enough to hit the interpreter recursion limit",
    "big-integer cost other than left shifts by a symbolic amount (multiplication / power with symbolic operands of unbounded size), memory in general",
]
ASSUMPTIONS = ["sre explores alternatives in the priority order modelled by the automaton; empty-iteration guards make candidates that differ only by non-consuming iterations harmless (such candidates are rejected by concrete replay and listed in the notes)"]
EXPLANATION = "z3 Datalog fixpoint over regex product automata (no length bound) + symbolic execution of the filter scanner with structural progress obligations"


def units(tier):
    us = []
    n1 = 5 if tier == "quick" else 7
    for n in range(0, n1 + 1):
        parts = [None] if n < 5 else list(range(8))
        for p in parts:
            us.append({"name": f"scan_n{n}" + (f"_p{p}" if p is not None else ""), "shape": {"n": n, "hi": 0x7FF, "part": p}})
    # receive(): every seed message of every kind followed by an extra top-level element with a
    # symbolic tag; the obligation is termination (enforced by the per-path watchdog, confirmed
    # on the real package in a subprocess) - an element that is neither read nor skipped would
    # make the decoder loop forever
    from checks import common

    names = sorted(common._seed_names()) if hasattr(common, "_seed_names") else None
    from checks.c05 import _seed_lengths

    for name in _seed_lengths():
        side = "server" if name in common.REQUESTS else "client"
        us.append({"name": f"recv_trailing_{name}", "shape": {"kind": "recv", "seed": name, "side": side, "pre": "search" if side == "client" else "fresh"}})
    # the same, with an element whose (context-specific) tag number is encoded in six identifier
    # octets - any number below 2**42 - appended to each constructed value of the richest request
    # and response in turn: wherever unknown elements are inspected or skipped, the work must not
    # depend on the NUMBER the peer wrote (engine cost obligation, see sx/core.py PathCost)
    for name in ("search_request", "search_entry", "bind_sasl", "extended_response"):
        side = "server" if name in common.REQUESTS else "client"
        for j in range(_constructed_count(name)):
            us.append({"name": f"recv_hightag_{name}_{j}", "shape": {"kind": "hightag", "seed": name, "node": j, "side": side, "pre": "search" if side == "client" else "fresh"}})
    if tier == "thorough":
        for n in range(1, 6):
            parts = [None] if n < 4 else list(range(8))
            for p in parts:
                us.append({"name": f"scanU_n{n}" + (f"_p{p}" if p is not None else ""), "shape": {"n": n, "hi": 0x10FFFF, "part": p}})
    return us


PART_CHARS = ["(", ")", "&|!", "=", "*", "\\", " ", None]  # first character classes used to split the work


def _constructed(root):
    out = []

    def walk(n):
        if n.cons:
            out.append(n)
            for k in n.kids:
                walk(k)

    walk(root)
    return out


def _constructed_count(name):
    import importlib

    import sx.harness as H
    import sx.loader as loader
    from checks import c04, common

    loader.load_real()
    lib = H.Lib(lambda n: importlib.import_module(f"sansldap.{n}"), None)
    seed = common.seed_bytes(H.RealCtx(lib, {}), name)
    (root,) = c04.parse(seed, 0, len(seed))
    return len(_constructed(root))


def _with_high_tag(ctx, seed, j):
    from checks import c04

    (root,) = c04.parse(seed, 0, len(seed))
    target = _constructed(root)[j]
    tn = ctx.bytes("ht.tn", 6)
    for i in range(5):
        ctx.assume(tn[i] >= 128)
    ctx.assume(tn[5] < 128)
    extra = c04._one(ctx, 0x9F) + tn + bytes([0])
    return c04.encode(root, lambda n: {"append": extra} if n is target else {})


def body(ctx, shape):
    if shape.get("kind") in ("recv", "hightag"):
        from checks import common

        if shape["kind"] == "hightag":
            data = _with_high_tag(ctx, common.seed_bytes(ctx, shape["seed"]), shape["node"])
        else:
            data = common.with_trailing_element(ctx, common.seed_bytes(ctx, shape["seed"]), "x")
        sess = common.make_session(ctx, shape["side"], shape["pre"])
        try:
            r = sess.receive(data)
            ctx.observe("returned", len(r))
        except Exception as e:  # noqa: BLE001  (which error is C05's subject; here only: it comes back)
            ctx.observe("raised", type(e).__name__)
        return
    F = ctx.L.filter
    n = shape["n"]
    s = ctx.str("s", n, 0, shape["hi"])
    if shape.get("part") is not None and n > 0:
        cls = PART_CHARS[shape["part"]]
        c0 = ctx.L  # noqa: F841
        first = _ord(ctx, s, 0)
        if cls is None:
            others = [ord(ch) for grp in PART_CHARS[:-1] for ch in grp]
            ctx.assume(ctx.all(*[first != o for o in others]))
        else:
            ctx.assume(ctx.any(*[first == ord(ch) for ch in cls]))
    calls = []
    stack = []
    # the recursive-descent functions of the current tree (a refactor that removes or renames them
    # leaves fewer hooks: the structural obligations then cover what is still there, and the run
    # still shows that from_string comes back on every path)
    names = [k for k in ("_unpack_filter", "_unpack_complex_filter", "_unpack_simple_filter") if callable(getattr(F, k, None))]
    orig = {k: getattr(F, k) for k in names}

    def wrap(name, fn):
        def w(filter, view, offset, length, **kw):  # noqa: A002
            if kw:
                offset = kw.get("offset", offset)
                length = kw.get("length", length)
            rec = {"name": name, "offset": offset, "length": length, "parent": stack[-1] if stack else None, "read": None, "kids": []}
            if stack:
                calls[stack[-1]]["kids"].append(len(calls))
            calls.append(rec)
            stack.append(len(calls) - 1)
            try:
                res = fn(filter, view, offset, length)
                rec["read"] = res[1]
                return res
            finally:
                stack.pop()

        return w

    def w2(name, fn):
        inner = wrap(name, fn)

        def w(filter, view, offset=None, length=None):  # noqa: A002
            return inner(filter, view, offset, length)

        return w

    for k in names:
        setattr(F, k, w2(k, orig[k]))
    outcome = "ok"
    try:
        F.LDAPFilter.from_string(s)
    except Exception as e:  # noqa: BLE001
        outcome = type(e).__name__
    finally:
        for k in names:
            setattr(F, k, orig[k])
    ctx.observe("calls", [(c["name"], c["offset"], c["length"], c["read"]) for c in calls])
    ctx.observe("outcome", outcome)
    # no position is handed to the same scanner function twice (a retry of a failed sub-parse, or a
    # re-scan from a sibling, is what makes the cost multiply per nesting level)
    seen_at = set()
    for c in calls:
        key = (c["name"], c["offset"])
        ctx.require(key not in seen_at, "scanner-function-called-twice-on-the-same-position")
        seen_at.add(key)
    ctx.require(len(calls) <= 2 * n + 2, "more-scanner-calls-than-input-characters-allow")
    for c in calls:
        if c["read"] is not None:
            ctx.require(ctx.all(c["read"] >= 1, c["read"] <= c["length"]), "scanner-call-makes-no-progress")
        if c["parent"] is not None:
            p = calls[c["parent"]]
            # termination measure: along any chain of nested calls the same function never sees an
            # interval that is not strictly shorter (a delegation to a different, non-recursive
            # helper may keep the interval)
            a = c["parent"]
            while a is not None and calls[a]["name"] != c["name"]:
                a = calls[a]["parent"]
            if a is not None:
                ctx.require(c["length"] < calls[a]["length"], "recursive-call-interval-not-smaller")
            ctx.require(ctx.all(c["offset"] >= p["offset"], c["offset"] + c["length"] <= p["offset"] + p["length"]), "recursive-call-interval-outside-parent")
        end = None
        for ki in c["kids"]:
            k = calls[ki]
            if end is not None:
                ctx.require(k["offset"] >= end, "sibling-calls-rescan-consumed-input")
            if k["read"] is None:
                break
            end = k["offset"] + k["read"]


def _ord(ctx, s, i):
    if ctx.mode == "real":
        return ord(s[i])
    from sx import shims

    return shims.sx_ord(s[i])


def post(tier, results):
    """RX part: runs in the parent process after the SX units"""
    import sys

    from sx import loader

    t0 = time.time()
    from rx import rx

    pats = rx.capture_library_patterns(loader.REPO_SRC)
    rows = []
    violation = False
    nviol = 0
    inconclusive = False
    os.makedirs(os.path.join(runner.REPLAY_DIR, "C18"), exist_ok=True)
    known = {}
    try:
        with open(runner.KNOWN) as fh:
            known = {f["signature"] for f in json.load(fh).get("findings", []) if f["property"] == "C18"}
    except FileNotFoundError:
        pass
    tot_q = 0
    tot_s = 0.0
    for p in pats:
        r = rx.analyze(p["pattern"], p["flags"], timeout_ms=300000, exhaustive=True) if _has_kw(rx.analyze, "exhaustive") else rx.analyze(p["pattern"], p["flags"])
        tot_q += r.get("datalog_queries", 0)
        tot_s += r.get("solver_s", 0.0)
        row = {"name": p.get("name"), "where": p.get("where"), "pattern": repr(p["pattern"])[:120], "states": r["states"], "fork_states": r.get("fork_states"), "datalog_queries": r.get("datalog_queries"), "solver_s": round(r.get("solver_s", 0.0), 3), "verdict": r["verdict"]}
        rows.append(row)
        if r["verdict"] == "eda":
            wits = r.get("witnesses") or [r.get("witness")]
            for w in wits:
                if not w:
                    continue
                sig = f"exponential-regex:{p.get('name') or p.get('where')}:{_txt(w['prefix'])}+{_txt(w['pump'])}*"
                path = os.path.join(runner.REPLAY_DIR, "C18", hashlib.sha1(sig.encode()).hexdigest()[:10] + ".json")
                with open(path, "w") as fh:
                    json.dump({"property": "C18", "signature": sig, "pattern": repr(p["pattern"]), "flags": p["flags"], "prefix": _txt(w["prefix"]), "pump": _txt(w["pump"]), "suffix": _txt(w["suffix"]), "validation": r.get("validation")}, fh, indent=1, default=repr)
                if sig in known:
                    print(f"KNOWN-FINDING: property=C18 {sig}")
                else:
                    print(f"VIOLATION property=C18 replay={path}  [{sig}]")
                    violation = True
                    nviol += 1
        elif r["verdict"] != "no-eda":
            inconclusive = True
            print("INCONCLUSIVE regex", row)
    cov = {
        "regex_patterns": rows,
        "regex_datalog_fixpoints": tot_q,
        "regex_solver_s": round(tot_s, 2),
        "regex_wall_s": round(time.time() - t0, 1),
    }
    return {"coverage": cov, "violation": violation, "violations": nviol, "inconclusive": inconclusive}


def replay(r):
    """time the attack string of a regex witness on the real `re` (subprocess, growing pump counts)"""
    import subprocess
    import sys

    code = (
        "import re,sys,time,ast\n"
        "pat=ast.literal_eval(sys.argv[1]); flags=int(sys.argv[2]); s=sys.argv[3]\n"
        "p=re.compile(pat,flags); t=time.perf_counter(); p.match(s); print(time.perf_counter()-t)\n"
    )
    out = []
    bad = False
    for n in (8, 12, 16, 20, 24, 28):
        s = r["prefix"] + r["pump"] * n + r["suffix"]
        try:
            res = subprocess.run([sys.executable, "-c", code, r["pattern"], str(r["flags"]), s], capture_output=True, text=True, timeout=20)
            out.append((n, float(res.stdout.strip() or "nan")))
        except subprocess.TimeoutExpired:
            out.append((n, ">20s"))
            bad = True
            break
    print(json.dumps({"pattern": r["pattern"][:80], "timings": out}, indent=1))
    ts = [t for _, t in out if isinstance(t, float)]
    grows = sum(1 for a, b in zip(ts, ts[1:]) if b > 6 * a and b > 1e-4)
    return 1 if bad or grows >= 2 else 0


def _has_kw(fn, name):
    import inspect

    return name in inspect.signature(fn).parameters


def _txt(x):
    if isinstance(x, bytes):
        return x.decode("latin-1")
    return x
