"""C03 - encoded messages are RFC 4511 BER that an independent decoder reads back.

Same skeletons as C01; the bytes of m.pack() (symbolic contents) are decoded by the strict
reference decoder in oracles/ref_ber.py (tag class/number/form of every element, definite lengths,
primitive strings, TRUE = FF, DEFAULT/absent optionals omitted, minimal integers) and the abstract
value it returns must equal the abstract value read off the message object's fields.
"""
from checks import msgs
from oracles import ref_ber
from sx.harness import exc_site
from checks.common import UNBIND_FORM

PROPERTY = "C03"
LEVEL = "model_checking"
from checks.c01 import OPTIONS, BOUNDS, OUTSIDE, ASSUMPTIONS  # noqa: E402,F401

EXPLANATION = "symbolic execution of pack(); the reference decoder runs on the symbolic output bytes; each well-formedness condition and each field equality is a z3 validity query"


def units(tier):
    return [{"name": n, "shape": {"skel": s}} for n, s in msgs.skeletons(tier)]


def body(ctx, shape):
    M = ctx.L.messages
    m = msgs.build(ctx, shape["skel"])
    opts = M.PackingOptions()
    try:
        b = m.pack(opts)
    except Exception as e:  # noqa: BLE001
        ctx.fail("pack-raises", f"{type(e).__name__}@{exc_site(e)}")
    b = ctx.tobytes(b)
    ctx.observe("bytes", b)
    ref = ref_ber.Ref(ctx, "ref-decode")
    ref.lenient_unbind = True
    try:
        got = ref.message(b)
    except ref_ber.RefError as e:
        ctx.fail("ref-decode", str(e))
    except ref_ber.Incomplete:
        ctx.fail("ref-decode", "truncated element")
    if ref.saw_constructed_unbind:
        ctx.report("ref-decode", UNBIND_FORM)
    exp = ref_ber.abstract_of(ctx, m)
    ctx.require(ctx.eq(got["id"], exp["id"]), "abstract-message-id")
    ctx.require(ref_ber.controls_match(ctx, ref, got["controls"], exp["controls"]), "abstract-controls")
    ctx.require(got["op"][0] == exp["op"][0], "abstract-operation-kind")
    ctx.require(ctx.eq(got["op"][1], exp["op"][1]), "abstract-operation-fields")
