"""C04 - the decoder accepts every valid BER form of a message, not only its own.

m = skeleton with symbolic contents; canonical = m.pack().  A generic TLV tree of the canonical
bytes is re-encoded with the freedoms BER/RFC 4511 allow and the library must decode the variant to
the same message:
  * length form per node: minimal, or long form with 1..4 (extra) length octets (AD's 84 xx xx xx xx)
  * TRUE as a symbolic non-zero octet
  * explicitly encoded DEFAULT values (criticality FALSE, dnAttributes FALSE)
  * one unrecognised trailing element (symbolic tag, symbolic content) after the defined
    components of each SEQUENCE type that RFC 4511 section 4 makes extensible
"""
from checks import msgs
from sx.harness import exc_site

PROPERTY = "C04"
LEVEL = "model_checking"
OPTIONS = {"quick": {"max_paths": 50000, "unit_budget_s": 600}, "thorough": {"max_paths": 500000, "unit_budget_s": 3000}}
BOUNDS = {
    "quick": {"messages": "C01 skeletons without the threshold/rich/wide variants (all kinds, all filter leaves, control forms)", "length_forms": "all nodes long form with 1, 2 or 4 extra octets; each single node long form (+1, +3) in turn", "boolean": "every TRUE octet replaced by a symbolic non-zero octet", "defaults": "criticality FALSE / dnAttributes FALSE inserted wherever absent", "trailing": "one element [context|private, number 12..30, either form] with 0..2 symbolic content octets after the last component of each extensible SEQUENCE, one SEQUENCE at a time"},
    "thorough": {"messages": "all C01 skeletons of the thorough tier except 64 KiB fields", "length_forms": "quick + pairs of nodes", "boolean": "same", "defaults": "same", "trailing": "same + with all-long-form lengths"},
}
OUTSIDE = ["three or more nodes varied independently", "indefinite lengths and constructed strings (RFC 4511 5.1 forbids them)", "non-minimal high-tag-number identifiers"]
ASSUMPTIONS = ["the canonical encoding is structurally concrete (lengths are shape), so the TLV tree of the canonical bytes is computed concretely; contents stay symbolic"]
EXPLANATION = "symbolic execution of unpack_ldap_message on re-encoded variants; equality with the original message is a z3 validity query"

VARIANTS = ["long_all", "long_single", "bools", "defaults", "trailing"]


def units(tier):
    us = []
    for name, sk in msgs.skeletons(tier):
        if "big" in sk and sk["big"][1] > 300:
            continue
        if tier == "thorough" and ("rich" in sk or "wide" in sk):
            continue  # contents do not interact with the encoding freedoms (C01 covers them)
        if tier == "quick" and ("rich" in sk or "wide" in sk or "big" in sk or name.endswith("40")):
            continue
        for v in VARIANTS:
            if name.endswith("40") and v != "long_all":
                continue
            us.append({"name": f"{v}_{name}", "shape": {"skel": sk, "variant": v, "tier": tier}})
    return us


# ---------------------------------------------------------------------- generic TLV tree
class Node:
    __slots__ = ("tag", "cons", "kids", "content", "role")

    def __init__(self, tag, cons, kids, content):
        self.tag = tag  # identifier octets (concrete bytes)
        self.cons = cons
        self.kids = kids
        self.content = content
        self.role = None


def parse(data, pos, end):
    """concrete-structure TLV parse of canonical library output -> list of nodes"""
    out = []
    while pos < end:
        t0 = int(data[pos])
        i = pos + 1
        if t0 & 31 == 31:
            while int(data[i]) & 128:
                i += 1
            i += 1
        tag = bytes(int(data[j]) for j in range(pos, i))
        l0 = int(data[i])
        i += 1
        if l0 < 128:
            ln = l0
        else:
            k = l0 & 127
            ln = 0
            for _ in range(k):
                ln = ln * 256 + int(data[i])
                i += 1
        if t0 & 32:
            out.append(Node(tag, True, parse(data, i, i + ln), None))
        else:
            out.append(Node(tag, False, None, data[i : i + ln]))
        pos = i + ln
    return out


def enc_len(n, extra):
    if extra == 0:
        if n < 128:
            return bytes([n])
        k = (n.bit_length() + 7) // 8
        return bytes([128 + k]) + n.to_bytes(k, "big")
    k = max(1, (n.bit_length() + 7) // 8)
    tot = k + extra - (0 if n >= 128 else 1)
    tot = max(tot, k)
    return bytes([128 + tot]) + n.to_bytes(tot, "big")


def encode(node, choose):
    """re-encode; choose(node) -> dict(extra=int, content=override or None, append=bytes-like or None,
    insert_after_first=bytes-like or None)"""
    c = choose(node)
    if node.cons:
        body = b""
        for i, k in enumerate(node.kids):
            body = body + encode(k, choose)
            if i == 0 and c.get("insert_after_first") is not None:
                body = body + c["insert_after_first"]
        if c.get("append") is not None:
            body = body + c["append"]
    else:
        body = c["content"] if c.get("content") is not None else node.content
    return node.tag + enc_len(len(body), c.get("extra", 0)) + body


# ---------------------------------------------------------------------- roles (RFC 4511 grammar walk)
def classify(root):
    """mark extensible SEQUENCEs ('seq'), booleans ('bool'), controls ('control'), ext filters ('ext')"""
    root.role = "seq"  # LDAPMessage
    kids = root.kids
    op = kids[1]
    n = op.tag[0] & 31 if len(op.tag) == 1 else None
    appno = op.tag[0] - 0x60 if len(op.tag) == 1 else 23 + 0  # placeholder, fixed below
    if len(op.tag) == 1:
        appno = op.tag[0] & 31
    if op.cons:
        if appno in (0, 1, 3, 4, 5, 23, 24):
            op.role = "seq"
        if appno == 0:
            auth = op.kids[2]
            if auth.cons:
                auth.role = "seq"  # SaslCredentials
        if appno == 3:
            for k in op.kids:
                if k.tag[0] == 0x01:
                    k.role = "bool"
            _filter(op.kids[6])
        if appno == 4:
            for pa in op.kids[1].kids:
                pa.role = "seq"
    for k in kids[2:]:
        if k.tag == b"\xa0":
            for ctl in k.kids:
                ctl.role = "control"
                for f in ctl.kids:
                    if f.tag == b"\x01":
                        f.role = "bool"


def _filter(f):
    t = f.tag[0] & 31
    if t in (0, 1):
        for k in f.kids:
            _filter(k)
    elif t == 2:
        _filter(f.kids[0])
    elif t in (3, 5, 6, 8, 4):
        f.role = "seq"
    elif t == 9:
        f.role = "ext"
        for k in f.kids:
            if k.tag == b"\x84":
                k.role = "bool"


def walk(node):
    yield node
    if node.cons:
        for k in node.kids:
            yield from walk(k)


# ---------------------------------------------------------------------- body
def decode_and_compare(ctx, alt, m, label):
    M, A = ctx.L.messages, ctx.L.asn1
    rd = A.ASN1Reader(alt)
    try:
        m2 = M.unpack_ldap_message(rd, M.PackingOptions())
    except Exception as e:  # noqa: BLE001
        ctx.observe("exc:" + label, type(e).__name__)
        ctx.fail(label + "-rejected", f"{type(e).__name__}@{exc_site(e)}")
    ctx.require(msgs.msg_eq(ctx, m2, m), label + "-decodes-differently")
    ctx.require(not rd, label + "-not-consumed")


def body(ctx, shape):
    M = ctx.L.messages
    m = msgs.build(ctx, shape["skel"])
    canon = ctx.tobytes(m.pack(M.PackingOptions()))
    (root,) = parse(canon, 0, len(canon))
    classify(root)
    nodes = list(walk(root))
    v = shape["variant"]
    plain = lambda n: {}  # noqa: E731
    if v == "long_all":
        for extra in (1, 2, 4):
            alt = encode(root, lambda n: {"extra": extra})
            decode_and_compare(ctx, alt, m, f"long-form+{extra}")
    elif v == "long_single":
        for target in nodes:
            for extra in (1, 3):
                alt = encode(root, lambda n: {"extra": extra} if n is target else {})
                decode_and_compare(ctx, alt, m, "single-node-long-form")
        if shape["tier"] == "thorough" and len(nodes) <= 12:
            for i, a in enumerate(nodes):
                for b in nodes[i + 1 :]:
                    alt = encode(root, lambda n: {"extra": 1} if n is a else ({"extra": 4} if n is b else {}))
                    decode_and_compare(ctx, alt, m, "two-node-long-form")
    elif v == "bools":
        bools = [n for n in nodes if n.role == "bool"]
        for i, target in enumerate(bools):
            if int(target.content[0]) == 0:
                continue
            x = ctx.int(f"true{i}", 1, 255)
            alt = encode(root, lambda n: {"content": bytes(0) + _one(ctx, x)} if n is target else {})
            decode_and_compare(ctx, alt, m, "true-as-nonzero")
    elif v == "defaults":
        for target in nodes:
            if target.role == "control" and not any(k.role == "bool" for k in target.kids):
                alt = encode(root, lambda n: {"insert_after_first": b"\x01\x01\x00"} if n is target else {})
                decode_and_compare(ctx, alt, m, "explicit-criticality-false")
            if target.role == "ext" and not any(k.role == "bool" for k in target.kids):
                alt = encode(root, lambda n: {"append": b"\x84\x01\x00"} if n is target else {})
                decode_and_compare(ctx, alt, m, "explicit-dnattributes-false")
    elif v == "trailing":
        seqs = [n for n in nodes if n.role in ("seq", "control", "ext")]
        for i, target in enumerate(seqs):
            for clen in (0, 2):
                t = ctx.int(f"xt{i}_{clen}", 0x80, 0xFF)
                # any context / private tag number 0..30 that this SEQUENCE type does not define
                known = _recognised(root, target)
                ctx.assume(ctx.all(t % 32 >= 5, t % 32 <= 30))
                ctx.assume(ctx.any(t >= 0xC0, ctx.all(*[t % 32 != k for k in known])))
                content = ctx.bytes(f"xc{i}_{clen}", clen)
                if target is root:
                    # [10] after the protocolOp is the MS-ADTS responseName (an LDAPOID): when that
                    # number is used its content is text, as the extension defines it
                    for j in range(clen):
                        ctx.assume(ctx.any(t % 32 != 10, t >= 0xC0, content[j] < 128))
                extra_el = _one(ctx, t) + bytes([clen]) + content
                alt = encode(root, lambda n: {"append": extra_el} if n is target else {})
                decode_and_compare(ctx, alt, m, "trailing-element:" + _where(root, target))
                if shape["tier"] == "thorough" and clen == 2:
                    alt = encode(root, lambda n: {"append": extra_el, "extra": 4} if n is target else {"extra": 4})
                    decode_and_compare(ctx, alt, m, "trailing-element-long:" + _where(root, target))
            # a trailing element may also carry a UNIVERSAL tag - where that cannot be mistaken for an
            # absent OPTIONAL component of the same type (all components before it are present)
            if _universal_ok(root, target):
                for ut in (0x01, 0x02, 0x04, 0x05, 0x0A, 0x30):
                    content = ctx.bytes(f"uc{i}_{ut}", 1)
                    extra_el = bytes([ut, 1]) + content
                    alt = encode(root, lambda n: {"append": extra_el} if n is target else {})
                    decode_and_compare(ctx, alt, m, "trailing-universal-element:" + _where(root, target))


def _recognised(root, node):
    """context-specific tag numbers that mean something after the components of this node"""
    if node is root:
        op = root.kids[1]
        # [0] controls; [10] is the MS-ADTS responseName, only meaningful (and then not neutral)
        # for an ExtendedResponse
        return [0, 10] if op.tag == b"\x78" else [0]
    t = node.tag
    if t == b"\x61":  # BindResponse: referral [3], serverSaslCreds [7]
        return [3, 7]
    if t in (b"\x65",):  # SearchResultDone: referral
        return [3]
    if t == b"\x78":  # ExtendedResponse
        return [3, 10, 11]
    if t == b"\x77":  # ExtendedRequest
        return [0, 1]
    if node.role == "ext":
        return [1, 2, 3, 4]
    if t == b"\xa4":  # SubstringFilter: the choices live one level down
        return []
    return []


def _universal_ok(root, node):
    """appending a universal-tagged element after the components of `node` is unambiguous"""
    if node.role == "control":
        return node.kids[-1].tag == b"\x04" and len(node.kids) >= 2  # controlValue present
    if node is root:
        return True
    t = node.tag[0]
    if t == 0xA3 and len(node.tag) == 1 and any(k.tag == b"\x04" for k in node.kids):
        # SaslCredentials (context 3 inside a bind request) or an equality filter: both end in OCTET STRING;
        # unambiguous only when the optional credentials are present (2 strings)
        return len(node.kids) >= 2
    return True


def _one(ctx, x):
    """single octet from an int / SInt"""
    if ctx.mode == "real":
        return bytes([x])
    from sx import values as V

    return V.mk_bytes([V.byte_item(x)])


def _where(root, target):
    """stable description of a node position: tags from the root"""

    def find(n, path):
        if n is target:
            return path + [n.tag.hex()]
        if n.cons:
            for k in n.kids:
                r = find(k, path + [n.tag.hex()])
                if r:
                    return r
        return None

    return "/".join(find(root, []) or ["?"])
