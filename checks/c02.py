"""C02 - message reassembly is independent of how the byte stream is chunked.

(a) one-step lemma, all octets symbolic: session A holds residue R (put there through receive(R)
    returning nothing) and receives D; session B, same pre-state and no residue, receives R+D.
    Same messages, same exception class, same state/bookkeeping/residue.  By induction over the
    chunks this gives every number of cuts.
(b) streams of 1..3 messages with symbolic contents, cut at every position (and every pair of
    positions in the thorough tier), compared with a single delivery.
(c) value semantics: the chunk is a bytearray that the caller overwrites after the call; messages
    returned earlier must not change (views are real views in SX).
"""
from checks import common, msgs
from sx.harness import exc_site

PROPERTY = "C02"
LEVEL = "model_checking"
OPTIONS = {"quick": {"max_paths": 100000, "unit_budget_s": 600}, "thorough": {"max_paths": 1500000, "unit_budget_s": 3300}}
BOUNDS = {
    "quick": {"lemma": "|R| + |D| <= 6 octets, every octet symbolic, every split, server fresh and client with a search + an extended operation outstanding", "streams": "5 streams of 1..3 messages (every message kind), contents symbolic, every single cut position incl. 0 and len (empty chunks)", "aliasing": "each stream delivered from a caller-owned bytearray that is overwritten afterwards"},
    "thorough": {"lemma": "|R| + |D| <= 8", "streams": "every pair of cut positions for streams up to 40 octets; every single cut for all", "aliasing": "same"},
}
OUTSIDE = ["residues longer than the bound that are not prefixes of the seed streams", "more than 3 messages per stream"]
ASSUMPTIONS = ["the residue invariant: a residue is whatever receive() kept after returning no message and no error (constructed through the API, not assumed)"]
EXPLANATION = "symbolic execution of receive() on two sessions; outcome equality is a z3 validity query over all octet values"

STREAMS = {
    "bind_then_search": [dict(kind="bind_request", auth="simple"), dict(kind="search_request", filter=["and", [["eq"], ["present"]]], nattr=1), dict(kind="unbind")],
    "search_results": [dict(kind="search_entry", attrs=[1]), dict(kind="search_reference", nuri=1), dict(kind="search_done", nref=None, controls=["paged"])],
    "extended": [dict(kind="extended_request", value=True), dict(kind="extended_request", value=False, controls=["generic_val"])],
    "responses": [dict(kind="extended_response", name=True, value=True, nref=None), dict(kind="bind_response", nref=1, creds=True)],
    "single_sasl": [dict(kind="bind_request", auth="sasl")],
}
SHORT_STREAMS = {
    "long_short_srv": [dict(kind="extended_request", value=True, controls=["generic_val"]), dict(kind="unbind")],
    "short_long_srv": [dict(kind="extended_request", value=False), dict(kind="extended_request", value=True, controls=["generic_val"])],
    "long_short_cli": [dict(kind="search_entry", attrs=[1]), dict(kind="search_done", nref=None)],
    "short_long_cli": [dict(kind="search_reference", nuri=1), dict(kind="extended_response", name=True, value=True, nref=None)],
}
STREAMS.update(SHORT_STREAMS)
STREAM_SIDE = {"bind_then_search": "server", "search_results": "client", "extended": "server", "responses": "client", "single_sasl": "server",
               "long_short_srv": "server", "short_long_srv": "server", "long_short_cli": "client", "short_long_cli": "client"}


def units(tier):
    quick = tier == "quick"
    us = []
    tot = 6 if quick else 8
    for side, pre in (("server", "fresh"), ("client", "search")):
        for n in range(0, tot + 1):
            for r in range(0, n + 1):
                parts = [None] if n < 7 else list(range(8))
                for part in parts:
                    us.append({"name": f"lemma_{side}_r{r}_d{n - r}" + (f"_p{part}" if part is not None else ""), "shape": {"kind": "lemma", "side": side, "pre": pre, "r": r, "d": n - r, "part": part}})
    for name in STREAMS:
        us.append({"name": f"stream1_{name}", "shape": {"kind": "stream", "stream": name, "cuts": 1}})
        us.append({"name": f"alias_{name}", "shape": {"kind": "alias", "stream": name}})
        # the same stream as a conforming peer may encode it: every length in the long form with
        # leading zero octets (Active Directory style); cuts then also fall inside length octets
        us.append({"name": f"stream1_long_{name}", "shape": {"kind": "stream", "stream": name, "cuts": 1, "long": 4}})
        if not quick:
            us.append({"name": f"stream2_{name}", "shape": {"kind": "stream", "stream": name, "cuts": 2}})
            us.append({"name": f"stream2_long_{name}", "shape": {"kind": "stream", "stream": name, "cuts": 2, "long": 2}})
    # two cuts (three chunks) over short two-message streams: long-then-short and short-then-long,
    # so that a delivery can end inside the second message after the buffered path finished the first
    for name in SHORT_STREAMS:
        us.append({"name": f"stream2_{name}", "shape": {"kind": "stream", "stream": name, "cuts": 2}})
    seen, out = set(), []
    for u in us:
        if u["name"] not in seen:
            seen.add(u["name"])
            out.append(u)
    return out


def snapshot(ctx, sess):
    from checks import sess as SS

    side = "client" if type(sess).__name__ == "LDAPClient" else "server"
    o, sr, _ = SS.roles(ctx, side)
    res = SS.residue_attr(ctx, side)
    return (
        sess.state.name,
        sorted_members(getattr(sess, o)),
        sorted_members(getattr(sess, sr)),
        ctx.tobytes(getattr(sess, res)) if res else b"",
    )


def sorted_members(s):
    return list(s)


def outcome(ctx, sess, data):
    try:
        msgs_ = sess.receive(data)
        return ("ok", msgs_)
    except Exception as e:  # noqa: BLE001
        return ("exc", type(e).__name__, exc_site(e))


def same_sets(ctx, a, b):
    if len(a) != len(b):
        return False
    return ctx.all(*[ctx.any(*[x == y for y in b]) for x in a])


def require_same(ctx, oa, ob, sa, sb, tag=""):
    ctx.observe("outcome" + tag, (oa[0], oa[1] if oa[0] == "exc" else len(oa[1])))
    ctx.require(oa[0] == ob[0], "chunking-changes-outcome-kind")
    if oa[0] == "exc":
        ctx.require(oa[1] == ob[1], "chunking-changes-exception")
    else:
        ctx.require(len(oa[1]) == len(ob[1]), "chunking-changes-message-count")
        for x, y in zip(oa[1], ob[1]):
            ctx.require(msgs.msg_eq(ctx, x, y), "chunking-changes-message")
    a, b = snapshot(ctx, sa), snapshot(ctx, sb)
    ctx.require(a[0] == b[0], "chunking-changes-state")
    ctx.require(same_sets(ctx, a[1], b[1]), "chunking-changes-outstanding")
    ctx.require(same_sets(ctx, a[2], b[2]), "chunking-changes-searches")
    if a[0] != "CLOSED":
        ctx.require(ctx.eq(a[3], b[3]), "chunking-changes-residue")


def build_stream(ctx, name):
    """-> (list of message objects, bytes)"""
    M = ctx.L.messages
    out = []
    data = b""
    side = STREAM_SIDE[name]
    for i, sk in enumerate(STREAMS[name]):
        sk = dict(sk)
        # ids the session will accept: the client pre-state 'search' has 1 (search) and 2 (extended) outstanding
        mid = 1 if side == "client" and sk["kind"].startswith("search") else (2 if side == "client" else i + 1)
        m = msgs.build(ctx, sk, mid=mid)
        # each message gets its own variable names
        out.append(m)
        data = data + m.pack(M.PackingOptions())
    return out, data


def _renamed(ctx, prefix):
    """context whose variable names carry a prefix (several messages in one run)"""

    class P:
        def __getattr__(self, k):
            v = getattr(ctx, k)
            if k in ("int", "bool", "bytes", "str", "bytearray"):
                return lambda name, *a, **kw: v(prefix + name, *a, **kw)
            return v

    return P()


def body(ctx, shape):
    kind = shape["kind"]
    if kind == "lemma":
        return _lemma(ctx, shape)
    if kind == "stream":
        return _stream(ctx, shape)
    return _alias(ctx, shape)


def _lemma(ctx, shape):
    side, pre = shape["side"], shape["pre"]
    R = ctx.bytes("R", shape["r"])
    D = ctx.bytes("D", shape["d"])
    if shape.get("part") is not None:
        first = R[0] if shape["r"] else D[0]
        p = shape["part"]
        ctx.assume(ctx.all(first >= p * 32, first < (p + 1) * 32))
    A = common.make_session(ctx, side, pre)
    B = common.make_session(ctx, side, pre)
    o = outcome(ctx, A, R)
    # residue invariant: R was retained without yielding anything
    if o[0] != "ok" or len(o[1]) != 0:
        ctx.assume(False)
    oa = outcome(ctx, A, D)
    ob = outcome(ctx, B, R + D)
    require_same(ctx, oa, ob, A, B)


def _stream(ctx, shape):
    name = shape["stream"]
    side = STREAM_SIDE[name]
    pre = "search" if side == "client" else "fresh"
    built = []
    data = b""
    M = ctx.L.messages
    for i, sk in enumerate(STREAMS[name]):
        mid = (1 if sk["kind"].startswith("search") else 2) if side == "client" else i + 1
        m = msgs.build(_renamed(ctx, f"m{i}."), dict(sk), mid=mid)
        built.append(m)
        enc = m.pack(M.PackingOptions())
        if shape.get("long"):
            from checks import c04

            (root,) = c04.parse(ctx.tobytes(enc), 0, len(enc))
            enc = c04.encode(root, lambda nd: {"extra": shape["long"]})
        data = data + enc
    n = len(data)
    whole = common.make_session(ctx, side, pre)
    ow = outcome(ctx, whole, data)
    ctx.observe("whole", (ow[0], ow[1] if ow[0] == "exc" else len(ow[1])))
    if ow[0] == "ok":
        ctx.require(len(ow[1]) == len(built), "single-delivery-loses-messages")
        for x, y in zip(ow[1], built):
            ctx.require(msgs.msg_eq(ctx, x, y), "single-delivery-alters-message")
    cuts = []
    if shape["cuts"] == 1:
        cuts = [(c,) for c in range(0, n + 1)]
    else:
        if n <= 40:
            cuts = [(a, b) for a in range(0, n + 1) for b in range(a, n + 1)]
        else:
            cuts = [(a, b) for a in range(0, n + 1, 3) for b in range(a, n + 1, 5)]
    for cs in cuts:
        sess = common.make_session(ctx, side, pre)
        pos = 0
        got = []
        res = None
        for c in list(cs) + [n]:
            o = outcome(ctx, sess, data[pos:c])
            pos = c
            if o[0] == "exc":
                res = o
                break
            got.extend(o[1])
        if res is None:
            res = ("ok", got)
        require_same(ctx, res, ow, sess, whole)


def _alias(ctx, shape):
    name = shape["stream"]
    side = STREAM_SIDE[name]
    pre = "search" if side == "client" else "fresh"
    M = ctx.L.messages
    data = b""
    for i, sk in enumerate(STREAMS[name]):
        mid = (1 if sk["kind"].startswith("search") else 2) if side == "client" else i + 1
        m = msgs.build(_renamed(ctx, f"m{i}."), dict(sk), mid=mid)
        data = data + m.pack(M.PackingOptions())
    n = len(data)
    junk = ctx.bytes("junk", 1)
    for cut in sorted({0, 1, n // 2, n - 1, n}):
        ref = common.make_session(ctx, side, pre)
        oref = outcome(ctx, ref, ctx.tobytes(data))
        sess = common.make_session(ctx, side, pre)
        got = []
        bad = None
        for part in (data[:cut], data[cut:]):
            buf = ctx.mk_bytearray(part)
            o = outcome(ctx, sess, buf)
            # the caller reuses its buffer: same object, every octet replaced
            ctx.overwrite(buf, (junk * len(part)) if len(part) else b"")
            if o[0] == "exc":
                bad = o
                break
            got.extend(o[1])
        res = bad if bad is not None else ("ok", got)
        ctx.require(res[0] == oref[0], "buffer-reuse-changes-outcome")
        if res[0] == "ok":
            ctx.require(len(res[1]) == len(oref[1]), "buffer-reuse-changes-count")
            for x, y in zip(res[1], oref[1]):
                ctx.require(msgs.msg_eq(ctx, x, y), "returned-message-aliases-caller-buffer")
                ctx.require(_no_views(x), "returned-message-holds-a-view")


def _no_views(x):
    """returned values are self-contained: no memoryview / bytearray inside"""
    import dataclasses

    from sx import values as V

    if isinstance(x, (memoryview, bytearray, V.SMemoryView, V.SByteArray)):
        return False
    if isinstance(x, (list, tuple)):
        return all(_no_views(i) for i in x)
    if dataclasses.is_dataclass(x) and not isinstance(x, type):
        return all(_no_views(getattr(x, f.name)) for f in dataclasses.fields(x))
    return True
