"""Sentence generator for the three RFC 4512 description grammars (4.1.1, 4.1.2, 4.1.6).

`gen(ctx, spec)` walks the ABNF and returns (text, denoted object): the reference semantics lives
here, written from the RFC, independent of the library's regexes and post-processing.  Holes
(numeric OIDs, descriptors, quoted-string characters, the syntax length) are symbolic; spacing
(every SP / WSP occurrence) is a vector in the spec.
"""
from __future__ import annotations

from oracles import relang

KINDS = ["ABSTRACT", "STRUCTURAL", "AUXILIARY"]
USAGES = ["userApplications", "directoryOperation", "distributedOperation", "dSAOperation"]


class SG:
    def __init__(self, ctx, spec):
        self.ctx = ctx
        self.spec = spec
        self.n = 0
        self.spi = 0
        self.spv = {int(k): v for k, v in spec.get("spv", {}).items()}
        self.rich = spec.get("rich", ["c"])  # pieces of the first quoted string
        self.first_q = True
        self.oidlen = spec.get("oidlen", 3)
        self.first_oid = True
        self.positions = []
        self.free = spec.get("free", False)  # C16: quoted strings are arbitrary text (any scalar value)

    def name(self, p):
        self.n += 1
        return f"{p}{self.n}"

    # ---- spacing
    def SP(self):
        i = self.spi
        self.spi += 1
        self.positions.append(("SP", i))
        return " " * self.spv.get(i, 1)

    def WSP(self, default=1):
        i = self.spi
        self.spi += 1
        self.positions.append(("WSP", i))
        return " " * self.spv.get(i, default)

    # ---- holes
    def numericoid(self):
        """the first numeric OID of a sentence is symbolic (all RFC 4512 numericoids of that length);
        later ones are distinct constants so that the paths do not multiply"""
        self.n_oid = getattr(self, "n_oid", 0) + 1
        if not self.first_oid and self.spec.get("sym_all_oids") is not True:
            return ["2.5", "1.3.6", "0.9", "2.16.840", "1.0"][self.n_oid % 5]
        n = self.oidlen if self.first_oid else 3
        self.first_oid = False
        s = self.ctx.str(self.name("o"), n, 0x2E, 0x39)
        self.ctx.assume(relang.member(self.ctx, s, relang.NUMERICOID))
        return s

    def descr(self, n=1):
        self.n_descr = getattr(self, "n_descr", 0) + 1
        if self.n_descr > 1 and self.spec.get("sym_all_oids") is not True:
            return ["cn", "o", "sn-2", "top", "x"][self.n_descr % 5][: max(n, 1)] if n < 2 else ["cn", "ou", "sn", "l-1", "dc"][self.n_descr % 5]
        s = self.ctx.str(self.name("d"), n, 0x2D, 0x7A)
        self.ctx.assume(relang.member(self.ctx, s, relang.DESCR))
        return s

    def oid(self, form):
        return self.numericoid() if form == "n" else self.descr(2 if form == "d2" else 1)

    def qdstring(self):
        """-> (text incl. quotes, denoted string)"""
        ctx = self.ctx
        pieces = self.rich if self.first_q else ["c"]
        self.first_q = False
        if self.free:
            v = ctx.str(self.name("q"), len(pieces), 0, 0x10FFFF)
            return "''", v
        text = "'"
        val = ""
        for p in pieces:
            if p == "c":  # QUTF1 except the two specials
                ch = ctx.str(self.name("c"), 1, 0x00, 0x7F)
                c = _c(ctx, ch, 0)
                ctx.assume(ctx.all(c != 0x27, c != 0x5C))
                text, val = text + ch, val + ch
            elif p == "u":  # UTFMB
                ch = ctx.str(self.name("u"), 1, 0x80, 0x10FFFF)
                text, val = text + ch, val + ch
            elif p == "q":
                text, val = text + "\\27", val + "'"
            elif p == "s":
                text, val = text + "\\5c", val + "\\"
            elif p == "S":
                text, val = text + "\\5C", val + "\\"
            else:
                raise ValueError(p)
        return text + "'", val


def _c(ctx, s, i):
    if ctx.mode == "real":
        return ord(s[i])
    from sx import shims

    return shims.sx_ord(s[i])


def _qdescrs(g, names_spec):
    """names_spec: None | ("single", n) | ("list", [n...])"""
    if names_spec[0] == "single":
        d = g.descr(names_spec[1])
        return "'" + d + "'", [d]
    text = "(" + g.WSP()
    vals = []
    for i, n in enumerate(names_spec[1]):
        if i:
            text = text + g.SP()
        d = g.descr(n)
        text = text + "'" + d + "'"
        vals.append(d)
    return text + g.WSP() + ")", vals


def _oids(g, spec):
    """spec: ("single", form) | ("list", [forms])"""
    if spec[0] == "single":
        o = g.oid(spec[1])
        return o, [o]
    text = "(" + g.WSP()
    vals = []
    for i, f in enumerate(spec[1]):
        if i:
            text = text + g.WSP() + "$" + g.WSP()
        o = g.oid(f)
        text = text + o
        vals.append(o)
    return text + g.WSP() + ")", vals


def _extensions(g, exts):
    """exts: list of (xname, ("single",) | ("list", count))"""
    text = ""
    vals = {}
    for xname, form in exts:
        text = text + g.SP() + xname + g.SP()
        if form[0] == "single":
            t, v = g.qdstring()
            text = text + t
            vals[xname[2:]] = [v]
        else:
            text = text + "(" + g.WSP()
            vs = []
            for i in range(form[1]):
                if i:
                    text = text + g.SP()
                t, v = g.qdstring()
                text = text + t
                vs.append(v)
            text = text + g.WSP() + ")"
            vals[xname[2:]] = vs
    return text, vals


def gen(ctx, spec):
    """-> (text, denoted description object of the library under test, generator)"""
    S = ctx.L.schema
    g = SG(ctx, spec)
    cls = spec["cls"]
    text = "(" + g.WSP()
    oid = g.numericoid()
    text = text + oid
    kw = {"oid": oid}
    if spec.get("names"):
        t, v = _qdescrs(g, spec["names"])
        text = text + g.SP() + "NAME" + g.SP() + t
        kw["names"] = v
    if spec.get("desc"):
        t, v = g.qdstring()
        text = text + g.SP() + "DESC" + g.SP() + t
        kw["description"] = v
    if spec.get("obsolete"):
        text = text + g.SP() + "OBSOLETE"
        kw["obsolete"] = True
    if cls == "oc":
        if spec.get("sup"):
            t, v = _oids(g, spec["sup"])
            text = text + g.SP() + "SUP" + g.SP() + t
            kw["super_types"] = v
        if spec.get("kind"):
            text = text + g.SP() + spec["kind"]
            kw["kind"] = S.ObjectClassKind(spec["kind"])
        for key, word, field in (("must", "MUST", "must"), ("may", "MAY", "may")):
            if spec.get(key):
                t, v = _oids(g, spec[key])
                text = text + g.SP() + word + g.SP() + t
                kw[field] = v
    elif cls == "at":
        for key, word, field in (("sup", "SUP", "super_type"), ("equality", "EQUALITY", "equality"), ("ordering", "ORDERING", "ordering"), ("substr", "SUBSTR", "substrings")):
            if spec.get(key):
                o = g.oid(spec[key])
                text = text + g.SP() + word + g.SP() + o
                kw[field] = o
        if spec.get("syntax"):
            o = g.numericoid()
            text = text + g.SP() + "SYNTAX" + g.SP()
            if spec["syntax"] == "quoted":  # the Active Directory variant
                text = text + "'" + o + "'"
            else:
                text = text + o
            kw["syntax"] = o
            if spec["syntax"] == "len":
                ln = ctx.int(g.name("len"), 0, 9999)
                text = text + "{" + _dec(ctx, ln) + "}"
                kw["syntax_length"] = ln
        for key, word, field in (("single_value", "SINGLE-VALUE", "single_value"), ("collective", "COLLECTIVE", "collective"), ("no_user_mod", "NO-USER-MODIFICATION", "no_user_modification")):
            if spec.get(key):
                text = text + g.SP() + word
                kw[field] = True
        if spec.get("usage"):
            text = text + g.SP() + "USAGE" + g.SP() + spec["usage"]
            kw["usage"] = S.AttributeTypeUsage(spec["usage"])
    else:
        for key, word, field in (("aux", "AUX", "aux"), ("must", "MUST", "must"), ("may", "MAY", "may"), ("not", "NOT", "never")):
            if spec.get(key):
                t, v = _oids(g, spec[key])
                text = text + g.SP() + word + g.SP() + t
                kw[field] = v
    if spec.get("exts"):
        t, v = _extensions(g, spec["exts"])
        text = text + t
        kw["extensions"] = v
    text = text + g.WSP() + ")"
    C = {"oc": S.ObjectClassDescription, "at": S.AttributeTypeDescription, "dcr": S.DITContentRuleDescription}[cls]
    return text, C(**kw), g


def _dec(ctx, v):
    """decimal text of an int / SInt in 0..9999 without leading zeros (reference rendering)"""
    if ctx.mode == "real" or isinstance(v, int):
        return str(v)
    from sx import shims

    return shims.int_to_text(v, "")


def klass(ctx, cls):
    S = ctx.L.schema
    return {"oc": S.ObjectClassDescription, "at": S.AttributeTypeDescription, "dcr": S.DITContentRuleDescription}[cls]


# ---------------------------------------------------------------------- spec enumeration
def base_specs():
    """(name, spec) - field-presence combinations covering every clause, single and list forms"""
    out = []
    L2 = ("list", ["d", "n"])
    out += [
        ("oc_min", dict(cls="oc")),
        ("oc_full", dict(cls="oc", names=("list", [1, 2]), desc=True, obsolete=True, sup=("single", "d"), kind="AUXILIARY", must=L2, may=("single", "n"), exts=[("X-FOO", ("single",)), ("x-B_a-", ("list", 2))])),
        ("oc_names1", dict(cls="oc", names=("single", 2), kind="ABSTRACT")),
        ("oc_names0", dict(cls="oc", names=("list", []))),
        ("oc_sup_list", dict(cls="oc", sup=("list", ["n", "d2"]), kind="STRUCTURAL", may=("list", ["d"]))),
        ("oc_desc_ext", dict(cls="oc", desc=True, exts=[("X-A", ("list", 1))])),
        ("oc_ext_empty", dict(cls="oc", exts=[("X-A", ("list", 0)), ("X-B", ("single",))])),
        ("at_min", dict(cls="at")),
        ("at_full", dict(cls="at", names=("single", 1), desc=True, obsolete=True, sup="d", equality="d2", ordering="n", substr="d", syntax="len", single_value=True, collective=True, no_user_mod=True, usage="dSAOperation", exts=[("X-ORIGIN", ("single",))])),
        ("at_syntax_plain", dict(cls="at", syntax="plain", usage="directoryOperation")),
        ("at_syntax_quoted", dict(cls="at", names=("single", 1), syntax="quoted", single_value=True)),
        ("at_flags", dict(cls="at", collective=True, usage="distributedOperation", names=("list", [1, 1]))),
        ("at_usage_user", dict(cls="at", desc=True, usage="userApplications")),
        ("dcr_min", dict(cls="dcr")),
        ("dcr_full", dict(cls="dcr", names=("list", [2]), desc=True, obsolete=True, aux=L2, must=("single", "d"), may=("list", ["n"]), **{"not": ("list", ["d", "d"])}, exts=[("X-Z", ("list", 2))])),
        ("dcr_not", dict(cls="dcr", **{"not": ("single", "n")}, desc=True)),
        # every order of extension forms: a list followed by something, three in a row
        # extension names that contain the prefix again / every permitted character kind
        ("oc_ext_names", dict(cls="oc", exts=[("X-MAX-x-LENGTH", ("single",)), ("x-X-", ("list", 1)), ("X-_a-X-b_", ("single",))])),
        ("oc_ext_list_single", dict(cls="oc", exts=[("X-A", ("list", 2)), ("X-B", ("single",))])),
        ("at_ext_list_list", dict(cls="at", syntax="plain", exts=[("X-A", ("list", 1)), ("X-B", ("list", 2))])),
        ("dcr_ext_three", dict(cls="dcr", desc=True, exts=[("X-A", ("single",)), ("X-B", ("list", 1)), ("X-C", ("single",))])),
    ]
    return out


RICH = [["s", "c", "c"], ["S", "c", "c"], ["q", "c", "c"], ["s", "s", "c"], ["c"], ["u"], ["q"], ["s"], ["S"], ["c", "c"], ["c", "q"], ["s", "c"], ["u", "c"], ["q", "q"], ["S", "s"], ["c", "u", "c"], ["q", "c", "s"]]
