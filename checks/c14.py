"""C14 - filter text is parsed as RFC 4515 defines it.

Sentences are derived from the RFC 4515 ABNF (every production) by a generator that returns the
text *and* the tree the grammar denotes (the reference semantics is in the generator, independent
of the library): attribute descriptions are symbolic strings constrained to RFC 4512 by a
membership formula, assertion values are sequences of pieces - a `normal` ASCII character, a raw
multi-octet UTF-8 character, or an escape `\\XX` with two symbolic hex digits of either case - and
the `dn` keyword appears in every case variant (ABNF literals are case-insensitive).  Tolerated
spaces are added at the positions the library documents.
Obligations: from_string(text) == denoted tree, and the bytes of a SearchRequest carrying the
parsed filter strict-decode (oracles/ref_ber.py) to the denoted tree.
"""
from oracles import ref_ber, relang
from sx.harness import exc_site

PROPERTY = "C14"
LEVEL = "model_checking"
OPTIONS = {"quick": {"max_paths": 100000, "unit_budget_s": 600}, "thorough": {"max_paths": 1000000, "unit_budget_s": 3000}}
BOUNDS = {
    "quick": {"items": "every item production: simple x4 operators, present, substring (all presence combinations, 0..2 any), extensible (attr/dnattrs/matchingrule combinations)", "values": "0..3 pieces per value; each piece normal-ASCII / UTF-8 2-4 octets / escape with symbolic hex digits in either case", "attributes": "all RFC 4512 attribute descriptions of length 1..3 in the first position, one letter elsewhere", "nesting": "and / or / not over items, depth <= 3, lists of 1..2", "dn keyword": "dn, DN, Dn, dN", "spaces": "0..2 spaces around the filter, after '(' of a complex filter, between sub-filters, before the closing ')' of a complex filter"},
    "thorough": {"values": "0..4 pieces", "attributes": "length 1..5", "nesting": "depth <= 4 + not^40 chain"},
}
OUTSIDE = ["sentences with an empty substring component (the ABNF is ambiguous there)", "nesting beyond the interpreter stack", "values longer than 4 pieces"]
ASSUMPTIONS = ["the reference semantics of a sentence is computed by the sentence generator (value octets = UTF-8 of normal characters, 16*h1+h2 for escapes)"]
EXPLANATION = "symbolic execution of from_string and SearchRequest.pack on grammar sentences with symbolic holes; tree equality and strict BER decoding are z3 validity queries"

PIECES = ["n", "e", "u2", "u3", "u4"]  # normal ascii, escape, utf-8 of 2/3/4 octets


def units(tier):
    us = []
    vmax = 3 if tier == "quick" else 4
    amax = 3 if tier == "quick" else 5

    def add(name, spec, **kw):
        kw.setdefault("pieces", ["n"])
        kw.setdefault("alen", 1)
        kw.setdefault("dn", "dn")
        kw.setdefault("sp", [0, 0, 0, 0])
        us.append({"name": name, "shape": dict(spec=spec, **kw)})

    simple = ["eq", "ge", "le", "approx"]
    # values: every piece kind in every position, lengths 0..vmax
    combos = [[]]
    for n in range(1, vmax + 1):
        import itertools

        for c in itertools.product(PIECES, repeat=n):
            if n == vmax and tier == "quick" and len(set(c)) == 1 and c[0] != "e":
                continue
            if n >= 3 and sum(1 for x in c if x != "n") > 2:
                continue
            combos.append(list(c))
    for i, c in enumerate(combos):
        k = simple[i % 4]
        add(f"val_{k}_{''.join(c) or 'empty'}", [k], pieces=c)
    for k in simple + ["present"]:
        for al in range(2, amax + 1):
            add(f"attr_{k}_a{al}", [k], alen=al)
    for f in ["i", "a", "f", "ia", "if", "af", "iaf", "aa", "iaaf"]:
        for pc in (["n"], ["e"], ["u2", "n"], ["n", "e"], ["e", "n", "n"], ["e", "e"]):
            add(f"sub_{f}_{''.join(pc)}", ["sub_" + f], pieces=pc)
    for f in ["a", "adn", "ar", "ardn", "r", "rdn"]:
        for dn in (["dn"] if "dn" not in f else ["dn", "DN", "Dn", "dN"]):
            add(f"ext_{f}_{dn}", ["ext_" + f], dn=dn, pieces=["n", "e"])
        add(f"ext_{f}_a2", ["ext_" + f], alen=2)
        if f in ("ardn", "rdn"):
            # a matching rule whose short name is literally "dn", after the dn keyword
            for rt in ("dn", "DN", "dN"):
                add(f"ext_{f}_rule_{rt}", ["ext_" + f], dn="Dn", rule_text=rt)
    trees = {
        "and1": ["and", [["eq"]]],
        "and2": ["and", [["eq"], ["present"]]],
        "or2": ["or", [["sub_if"], ["ext_ardn"]]],
        "not": ["not", ["ge"]],
        "d3": ["and", [["or", [["eq"], ["not", ["sub_a"]]]], ["le"]]],
        "d3b": ["not", ["or", [["and", [["approx"]]], ["present"]]]],
    }
    for nm, sp in trees.items():
        add(f"tree_{nm}", sp, pieces=["n", "e"])
        add(f"tree_{nm}_u", sp, pieces=["u2", "u3"])
        add(f"tree_{nm}_u4", sp, pieces=["n", "u4"])
        for si, spaces in enumerate([[1, 0, 0, 0], [0, 1, 0, 0], [0, 0, 1, 0], [0, 0, 0, 1], [2, 2, 2, 2]]):
            add(f"tree_{nm}_sp{si}", sp, sp=spaces)
    add("item_sp_outer", ["eq"], sp=[2, 0, 0, 0])
    if tier == "thorough":
        chain = ["eq"]
        for _ in range(40):
            chain = ["not", chain]
        add("not40", chain)
        add("d4", ["or", [["not", ["and", [["or", [["eq"]]], ["sub_iaf"]]]], ["ext_r"]]], pieces=["n", "e"])
    us.append({"name": "long_sentence_1500", "shape": {"kind": "long", "n": 1500, "spec": ["or"], "sp": [0, 0, 0, 0]}})
    return us


def _c(ctx, s, i):
    if ctx.mode == "real":
        return ord(s[i])
    from sx import shims

    return shims.sx_ord(s[i])


class G:
    def __init__(self, ctx, shape):
        self.ctx = ctx
        self.shape = shape
        self.n = 0
        self.first_attr = True
        self.first_val = True

    def name(self, p):
        self.n += 1
        return f"{p}{self.n}"

    def attr(self, rule=False):
        ctx = self.ctx
        n = self.shape["alen"] if self.first_attr else 1
        self.first_attr = False
        s = ctx.str(self.name("a"), n, 0x20, 0x7E)
        ctx.assume(relang.member(ctx, s, relang.OID if rule else relang.ATTRDESC))
        if rule and n == 2:
            ctx.assume(ctx.neg(ctx.all(ctx.any(_c(ctx, s, 0) == 100, _c(ctx, s, 0) == 68), ctx.any(_c(ctx, s, 1) == 110, _c(ctx, s, 1) == 78))))
        return s

    def value(self, nonempty=False):
        """-> (text, denoted octets)"""
        ctx = self.ctx
        pieces = self.shape["pieces"] if self.first_val else ["n"]
        self.first_val = False
        if nonempty and not pieces:
            pieces = ["n"]
        text = ""
        octs = b""
        for p in pieces:
            if p == "n":
                ch = ctx.str(self.name("n"), 1, 0x01, 0x7F)
                c = _c(ctx, ch, 0)
                ctx.assume(ctx.all(c != 0x28, c != 0x29, c != 0x2A, c != 0x5C))
                text = text + ch
                octs = octs + ch.encode("utf-8")
            elif p == "e":
                h = ctx.str(self.name("h"), 2, 0x30, 0x66)
                ctx.assume(relang.member(ctx, h, "[0-9A-Fa-f][0-9A-Fa-f]"))
                text = text + "\\" + h
                octs = octs + _byte(ctx, 16 * _hv(ctx, _c(ctx, h, 0)) + _hv(ctx, _c(ctx, h, 1)))
            else:
                lo, hi = {"u2": (0x80, 0x7FF), "u3": (0x800, 0xFFFF), "u4": (0x10000, 0x10FFFF)}[p]
                ch = ctx.str(self.name("u"), 1, lo, hi)
                text = text + ch
                octs = octs + ch.encode("utf-8")
        return text, octs


def _hv(ctx, c):
    return ctx.ite(c <= 57, c - 48, ctx.ite(c <= 70, c - 55, c - 87))


def _byte(ctx, x):
    if ctx.mode == "real":
        return bytes([x])
    from sx import values as V

    return V.mk_bytes([V.byte_item(x)])


def gen(g, F, spec, sp, top=True):
    """-> (text, denoted library filter object)"""
    k = spec[0]
    pre, aft, mid, end = sp
    if k in ("and", "or"):
        parts = [gen(g, F, s, sp, False) for s in spec[1]]
        body = ""
        for i, (t, _) in enumerate(parts):
            body = body + (" " * mid if i else "") + t
        text = "(" + " " * aft + ("&" if k == "and" else "|") + " " * aft + body + " " * end + ")"
        obj = (F.FilterAnd if k == "and" else F.FilterOr)([o for _, o in parts])
    elif k == "not":
        t, o = gen(g, F, spec[1], sp, False)
        text = "(" + " " * aft + "!" + " " * aft + t + " " * end + ")"
        obj = F.FilterNot(o)
    elif k in ("eq", "ge", "le", "approx"):
        a = g.attr()
        vt, vo = g.value()
        op = {"eq": "=", "ge": ">=", "le": "<=", "approx": "~="}[k]
        cls = {"eq": F.FilterEquality, "ge": F.FilterGreaterOrEqual, "le": F.FilterLessOrEqual, "approx": F.FilterApproxMatch}[k]
        text = "(" + a + op + vt + ")"
        obj = cls(a, vo)
    elif k == "present":
        a = g.attr()
        text = "(" + a + "=*)"
        obj = F.FilterPresent(a)
    elif k.startswith("sub_"):
        f = k[4:]
        a = g.attr()
        ini = g.value(True) if f.startswith("i") else None
        anys = [g.value(True) for _ in range(f.count("a"))]
        fin = g.value(True) if f.endswith("f") else None
        body = (ini[0] if ini else "") + "*"
        for t, _ in anys:
            body = body + t + "*"
        body = body + (fin[0] if fin else "")
        text = "(" + a + "=" + body + ")"
        obj = F.FilterSubstrings(a, ini[1] if ini else None, [o for _, o in anys], fin[1] if fin else None)
    elif k.startswith("ext_"):
        f = k[4:]
        dn = f.endswith("dn")
        core = f[:-2] if dn else f
        a = g.attr() if "a" in core else None
        r = (g.shape.get("rule_text") or g.attr(rule=True)) if "r" in core else None
        vt, vo = g.value()
        text = "(" + (a if a is not None else "") + ((":" + g.shape["dn"]) if dn else "") + ((":" + r) if r is not None else "") + ":=" + vt + ")"
        obj = F.FilterExtensibleMatch(r, a, vo, dn)
    else:
        raise ValueError(k)
    if top:
        text = " " * pre + text + " " * pre
    return text, obj


def _long(ctx, shape):
    """long flat sentences: many members, many escapes in one value, many substring components"""
    F = ctx.L.filter
    n = shape["n"]
    esc = "".join("\\%02x" % (i % 256) for i in range(60))
    val = bytes(i % 256 for i in range(60))
    members_t = "".join(f"(a{i % 7}={esc})" if i % 50 == 0 else f"(a{i % 7}=v{i})" for i in range(n))
    members = [F.FilterEquality(f"a{i % 7}", val if i % 50 == 0 else f"v{i}".encode()) for i in range(n)]
    anys = [f"p{i}".encode() for i in range(300)]
    text = "(|" + members_t + "(cn=i*" + "*".join(a.decode() for a in anys) + "*f)(!(o=*)))"
    expected = F.FilterOr(members + [F.FilterSubstrings("cn", b"i", anys, b"f"), F.FilterNot(F.FilterPresent("o"))])
    try:
        parsed = F.LDAPFilter.from_string(text)
    except Exception as e:  # noqa: BLE001
        ctx.fail("long-grammar-sentence-rejected", f"{type(e).__name__}@{exc_site(e)}")
    ctx.require(parsed == expected, "long-sentence-tree-differs-from-grammar")
    # and the serialiser writes a text that parses back (C13's direction on the same tree)
    try:
        again = F.LDAPFilter.from_string(str(expected))
    except Exception as e:  # noqa: BLE001
        ctx.fail("long-tree-text-form-rejected", f"{type(e).__name__}@{exc_site(e)}")
    ctx.require(again == expected, "long-tree-reparsed-differs")


def body(ctx, shape):
    if shape.get("kind") == "long":
        return _long(ctx, shape)
    F, M = ctx.L.filter, ctx.L.messages
    g = G(ctx, shape)
    text, expected = gen(g, F, shape["spec"], shape["sp"])
    ctx.observe("text", text)
    try:
        parsed = F.LDAPFilter.from_string(text)
    except Exception as e:  # noqa: BLE001
        ctx.observe("exc", type(e).__name__)
        ctx.fail("grammar-sentence-rejected", f"{type(e).__name__}@{exc_site(e)}")
    ctx.require(ctx.eq(parsed, expected), "parsed-tree-differs-from-grammar:" + _kindsig(shape["spec"]))
    req = M.SearchRequest(1, [], "", M.SearchScope.BASE, M.DereferencingPolicy.NEVER, 0, 0, False, parsed, [])
    try:
        data = ctx.tobytes(req.pack(M.PackingOptions()))
    except Exception as e:  # noqa: BLE001
        ctx.fail("search-request-pack-raises", f"{type(e).__name__}@{exc_site(e)}")
    ref = ref_ber.Ref(ctx, "C14-ber")
    try:
        got = ref.message(data)
    except (ref_ber.RefError, ref_ber.Incomplete) as e:
        ctx.fail("search-request-not-rfc4511", str(e))
    ctx.require(ctx.eq(got["op"][1]["filter"], ref_ber.abstract_filter(ctx, expected)), "encoded-filter-differs-from-grammar")


def _kindsig(spec):
    k = spec[0]
    if k in ("and", "or", "not"):
        return "complex"
    return k.split("_")[0]
