"""C15 - the filter parser is total and only accepts what it can faithfully represent.

(a) every string of length <= N (every code point symbolic; domain: all code points incl. lone
    surrogates in the thorough tier) through LDAPFilter.from_string;
(b) 2-character symbolic windows (replace and insert) at every position of grammar sentences;
(c) z3 regular-expression theory, no length bound: the attribute pattern the library compiles
    (with Python's `$`) is included in RFC 4512's attributedescription.
Obligations: a filter or FilterSyntaxError with 0 <= offset, 0 <= length, offset + length <=
len(utf-8 of the stripped input); never another exception type; on acceptance every attribute
description / matching rule is RFC 4512-valid (membership formula) and str(result) parses back to
an equal result.
"""
from oracles import relang
from sx.harness import exc_site

from sx import runner  # noqa: E402

PROPERTY = "C15"
LEVEL = "model_checking"
OPTIONS = {"quick": {"max_paths": 300000, "unit_budget_s": 900}, "thorough": {"max_paths": 3000000, "unit_budget_s": 3400}}
BOUNDS = {
    "quick": {"strings": "all strings of length <= 5 over U+0000..U+07FF plus length <= 3 over every code point (lone surrogates included)", "windows": "2 symbolic characters replacing / inserted at every position of 14 sentences", "regex": "attribute pattern vs RFC 4512, unbounded length"},
    "thorough": {"strings": "length <= 7 over U+0000..U+07FF, length <= 4 over every code point", "windows": "same + 3-character windows", "regex": "same"},
}
OUTSIDE = ["nesting deep enough for RecursionError (about 500 levels, 1.5 kB of text): beyond any bound explored, not claimed"]
ASSUMPTIONS = ["the reported offset/length are compared with the UTF-8 length of the stripped input (the parser works on that encoding)"]
EXPLANATION = "symbolic execution of from_string on symbolic text; totality, error-range and faithful-acceptance obligations are z3 validity queries; the regex inclusion is a z3 string-theory query"

# RFC 4512 attributedescription widened by the one deviation the repository's own tests pin:
# a numericoid with a single arc ("0", "12")
LOOSE = f"(?:{relang.DESCR}|{relang.NUMBER}(?:\\.{relang.NUMBER})*){relang.OPTIONS}"

SENTENCES = [
    "(cn=a)", "(&(a=b)(c=d))", "(|(a=b)(!(c=d)))", "(cn=a*b*c)", "(cn=*)", "(cn:dn:2.5.13.2:=x)", "(:caseMatch:=x)",
    "(cn;lang-en>=a)", "(o<=z)", "(sn~=q)", r"(cn=\2a\5c)", "(1.2.3=v)", " ( & (a=b) (c=d) ) ", "(cn:=v)",
]
PART_CHARS = ["(", ")", "&|!", "=", "*", "\\", " ", ":<>~", None]


def units(tier):
    us = []
    n1 = 5 if tier == "quick" else 7
    for n in range(0, n1 + 1):
        parts = [None] if n < 4 else list(range(len(PART_CHARS)))
        for p in parts:
            # the largest length is split on the class of the second character as well (parallelism only)
            p2s = list(range(len(PART_CHARS))) if (n == n1 and n >= 5) else [None]
            for p2 in p2s:
                us.append({"name": f"str_n{n}" + (f"_p{p}" if p is not None else "") + (f"_q{p2}" if p2 is not None else ""), "shape": {"kind": "raw", "n": n, "hi": 0x7FF, "sur": False, "part": p, "part2": p2}})
    n2 = 3 if tier == "quick" else 4
    for n in range(1, n2 + 1):
        parts = [None] if n < 3 else list(range(len(PART_CHARS)))
        for p in parts:
            us.append({"name": f"uni_n{n}" + (f"_p{p}" if p is not None else ""), "shape": {"kind": "raw", "n": n, "hi": 0x10FFFF, "sur": True, "part": p}})
    for si, sent in enumerate(SENTENCES):
        for k in ((2,) if tier == "quick" else (2, 3)):
            for off in range(0, len(sent) + 1):
                if off + k <= len(sent):
                    us.append({"name": f"rep{k}_s{si}_o{off}", "shape": {"kind": "win", "sent": sent, "off": off, "k": k, "mode": "replace"}})
                if k == 2:
                    us.append({"name": f"ins{k}_s{si}_o{off}", "shape": {"kind": "win", "sent": sent, "off": off, "k": k, "mode": "insert"}})
    # frames: a fixed skeleton around a run of k free characters, so that header / value / rule
    # positions see every short string even where the whole-string bound does not reach
    kf = 4 if tier == "quick" else 6
    for name, pre, post, k0 in (("hdr", "(", "=x)", 1), ("val", "(a=", ")", 1), ("rule", "(a:", ":=x)", 1), ("dnrule", "(a:dn:", ":=x)", 1), ("norule", "(:", ":=x)", 1), ("sub", "(a=b*", ")", 1), ("nest", "(&(a=b)", ")", 1)):
        for k in range(k0, (kf if name == "hdr" else kf - 1) + 1):
            us.append({"name": f"frame_{name}_k{k}", "shape": {"kind": "win", "sent": pre + "a" * k + post, "off": len(pre), "k": k, "mode": "replace"}})
    # degenerate concrete strings (nothing symbolic): empty components between separators
    for i, t in enumerate(["(a::=x)", "(::=x)", "(a:dn::=x)", "(:dn::=x)", "(a:=)", "(=x)", "(a=)", "(a:dn:=x)", "(:=x)", "(a;=x)", "(a;;b=x)", "(a=*)", "(a=**)", "(a=*b**c)", "()", "(&)", "(|)", "(!)", "(!(a=b)(c=d))", "(a=b)(c=d)", "((a=b))", "(a=b", "a=b)", "(a=\\)", "(a=\\5)", "(a=\\5g)", "(a=b*\\zz)", "(a=b*c*\\zz*d)"]):
        t = t.replace("\\\\", "\\")
        us.append({"name": f"degenerate_{i}", "shape": {"kind": "win", "sent": t, "off": 0, "k": 0, "mode": "replace"}})
    # every sentence of C14's grammar generator (symbolic holes): accepted text must satisfy the
    # acceptance clauses too (valid attributes, text form re-parses to the same result)
    from checks import c14

    for u in c14.units(tier):
        if u["shape"].get("kind") == "long":
            continue  # (C13/C14's own long sentence)
        us.append({"name": "gram_" + u["name"], "shape": {"kind": "gram", "c14": u["shape"]}})
    return us


def _ord(ctx, s, i):
    if ctx.mode == "real":
        return ord(s[i])
    from sx import shims

    return shims.sx_ord(s[i])


def collect(f, out):
    """(kind, text) of every attribute description / matching rule in a filter tree"""
    n = type(f).__name__
    if n in ("FilterAnd", "FilterOr"):
        for x in f.filters:
            collect(x, out)
    elif n == "FilterNot":
        collect(f.filter, out)
    elif n == "FilterExtensibleMatch":
        if f.attribute is not None:
            out.append(("attr", f.attribute))
        if f.rule is not None:
            out.append(("rule", f.rule))
    else:
        out.append(("attr", f.attribute))


def utf8_len(ctx, s):
    """length of s.strip() encoded as UTF-8 with surrogateescape, the unit of offset/length"""
    if ctx.mode == "real":
        return len(s.strip().encode("utf-8", errors="surrogateescape"))
    from sx import text as T

    st = T.strip_ws(s)
    return len(T.utf8_encode(T.citems(st), "surrogateescape"))


def body(ctx, shape):
    F = ctx.L.filter
    if shape["kind"] == "gram":
        from checks import c14

        g = c14.G(ctx, shape["c14"])
        s, _ = c14.gen(g, F, shape["c14"]["spec"], shape["c14"]["sp"])
    elif shape["kind"] == "raw":
        n = shape["n"]
        s = ctx.str("s", n, 0, shape["hi"], surrogates=shape["sur"])
        if shape.get("part") is not None and n > 0:
            cls = PART_CHARS[shape["part"]]
            first = _ord(ctx, s, 0)
            if cls is None:
                others = [ord(ch) for grp in PART_CHARS[:-1] for ch in grp]
                ctx.assume(ctx.all(*[first != o for o in others]))
            else:
                ctx.assume(ctx.any(*[first == ord(ch) for ch in cls]))
        if shape.get("part2") is not None and n > 1:
            cls = PART_CHARS[shape["part2"]]
            second = _ord(ctx, s, 1)
            if cls is None:
                others = [ord(ch) for grp in PART_CHARS[:-1] for ch in grp]
                ctx.assume(ctx.all(*[second != o for o in others]))
            else:
                ctx.assume(ctx.any(*[second == ord(ch) for ch in cls]))
    else:
        sent, off, k = shape["sent"], shape["off"], shape["k"]
        w = ctx.str("w", k, 0, 0x7FF)
        s = sent[:off] + w + (sent[off + k :] if shape["mode"] == "replace" else sent[off:])
    try:
        f = F.LDAPFilter.from_string(s)
    except Exception as e:  # noqa: BLE001
        name = type(e).__name__
        ctx.observe("exc", name)
        if name != "FilterSyntaxError":
            ctx.fail("parser-raises-foreign-exception", f"{name}@{exc_site(e)}")
        ctx.observe("range", (e.offset, e.length))
        total = utf8_len_safe(ctx, s)
        ctx.require(ctx.all(e.offset >= 0, e.length >= 0), "error-range-negative", exc_site(e))
        if total is not None:
            ctx.require(e.offset + e.length <= total, "error-range-outside-input", exc_site(e))
        return
    ctx.observe("accepted", type(f).__name__)
    items = []
    collect(f, items)
    # from the loosest language to RFC 4512, so that each deviation gets its own signature
    for kind, text in items:
        ctx.require(relang.member(ctx, text, LOOSE), f"accepted-invalid-{kind}")
        ctx.require(relang.member(ctx, text, relang.ATTRDESC), f"accepted-invalid-{kind}:single-arc-numericoid")
        if kind == "rule":
            ctx.require(relang.member(ctx, text, relang.OID), "accepted-invalid-rule:options-on-matching-rule")
    try:
        t2 = ctx.text(f)
        f2 = F.LDAPFilter.from_string(t2)
    except Exception as e:  # noqa: BLE001
        ctx.fail("accepted-filter-text-does-not-reparse", f"{type(e).__name__}@{exc_site(e)}")
    ctx.require(ctx.eq(f2, f), "accepted-filter-reparses-differently")


def utf8_len_safe(ctx, s):
    try:
        return utf8_len(ctx, s)
    except Exception:  # noqa: BLE001
        return None


def post(tier, results):
    import json
    import os
    import time

    import z3  # noqa: F401

    from oracles import z3re
    from sx import loader

    loader.load_real()
    import importlib

    Fm = importlib.import_module("sansldap._filter")
    t0 = time.time()
    pat = Fm._ATTRIBUTE_PATTERN
    out = {"coverage": {"regex_inclusion": []}}
    known = set()
    try:
        known = {f["signature"] for f in json.load(open(runner.KNOWN)).get("findings", []) if f["property"] == "C15"}
    except FileNotFoundError:
        pass
    os.makedirs(os.path.join(runner.REPLAY_DIR, "C15"), exist_ok=True)
    # loosest language first, so that the pinned deviation does not hide a new one
    for lang_name, lang, sig in (
        ("RFC 4512 attributedescription + single-arc numericoid", LOOSE, "attribute-pattern-accepts-non-rfc4512"),
        ("RFC 4512 attributedescription", relang.ATTRDESC, "attribute-pattern-accepts-non-rfc4512:single-arc-numericoid"),
    ):
        verdict, wit = z3re.not_included(pat.pattern, pat.flags, lang)
        out["coverage"]["regex_inclusion"].append({"library_pattern": "_ATTRIBUTE_PATTERN", "language": lang_name, "verdict": verdict, "witness": wit, "solver_s": round(time.time() - t0, 3)})
        if verdict == "unknown":
            out["inconclusive"] = True
        if verdict != "witness":
            continue
        text = f"({wit}=x)"
        try:
            Fm.LDAPFilter.from_string(text)
            accepted = True
        except ValueError:
            accepted = False
        if not accepted:
            out["inconclusive"] = True  # the solver's witness must reproduce on the real parser
            continue
        path = os.path.join(runner.REPLAY_DIR, "C15", f"regex_inclusion_{len(out['coverage']['regex_inclusion'])}.json")
        with open(path, "w") as fh:
            json.dump({"property": "C15", "signature": sig, "filter_text": text}, fh)
        if sig in known:
            print(f"KNOWN-FINDING: property=C15 {sig} (witness {wit!r})")
        else:
            print(f"VIOLATION property=C15 replay={path}  [{sig}] witness {wit!r}")
            out["violation"] = True
            out["violations"] = out.get("violations", 0) + 1
        break
    return out


def replay(r):
    from sx import loader

    loader.load_real()
    import importlib

    Fm = importlib.import_module("sansldap._filter")
    try:
        print("accepted:", Fm.LDAPFilter.from_string(r["filter_text"]))
        return 1
    except ValueError as e:
        print("rejected:", e)
        return 0
