"""C10 - session rules, decided on the real LDAPClient/LDAPServer objects (see checks/sess.py).

Inductive step: one public call with symbolic arguments from an arbitrary pre-state satisfying
the representation invariant (reached through the public API in every replay); bounded model
checking: every sequence of k calls from a fresh session.  Post-conditions come from the
documented state machine in checks/sess.py (ghost model), evaluated by z3 for all ids / result
codes / drain amounts / buffer contents.
"""
from checks import sess

PROPERTY = "C10"
LEVEL = "model_checking"
OPTIONS = {"quick": {"max_paths": 20000, "unit_budget_s": 600}, "thorough": {"max_paths": 100000, "unit_budget_s": 1800, "validate_every": 3}}
DEPTH = {"quick": 2, "thorough": 4}
BOUNDS = {
    "quick": {"inductive_step": "pre-states: 4 states x <= 2 outstanding operations (each search or not; on the server also ids that are in the search registry but no longer outstanding) with symbolic distinct ids <= 60, symbolic counter <= 61; one call of each of the 24 client / 20 server operations (18/14 plain + 6/6 carrying a paged-results control with a symbolic cookie) with symbolic id, result code 0..80, drain amount -4..40 or None", "bmc": "every sequence of 2 operations (control-carrying variants included) from a fresh client and a fresh server"},
    "thorough": {"inductive_step": "same", "bmc": "every sequence of 2 (with control-carrying variants) and 3 operations; every sequence of 4 server operations (14^4)"},
}
OUTSIDE = ["ids between 61 and 10^4400 (one huge id per response call is tried) ", "more than 2 simultaneously outstanding operations in the inductive step", "ids above 60 (multi-octet INTEGER encodings are C01/C07's subject)", "a response whose kind does not match the operation its id belongs to (not specified by the property)"]
ASSUMPTIONS = ["symbolic pre-states are injected into the session attributes; every real-mode run (path validation, replay) reaches the same abstract state through public calls only", "pending output is observed by draining a deep copy of the session (public API only); pending octets arise from real sends (BMC sequences), never by injection"]
EXPLANATION = "symbolic execution of one/k session calls; post-conditions from an independent ghost model are z3 validity queries"
PROPS = ("C10",)


HUGE_OPS = ["bind_response", "extended_response", "notice", "search_entry", "search_reference", "search_done"]


def _huge_units():
    # a candidate id far beyond any machine word (never received): the refusal has to be an LDAPError
    return [{"name": f"hugeid_{pre}_{op}", "shape": {"kind": "hugeid", "op": op, "pre": pre}} for pre in ("fresh", "opened") for op in HUGE_OPS]


def units(tier):
    if tier == "quick":
        return sess.step_units(tier) + sess.bmc_units(tier, 2) + _huge_units()
    # depth 4 on the server (which responses may be emitted is the server's business)
    f = lambda side, op: side == "server"  # noqa: E731
    return sess.step_units(tier) + sess.bmc_units(tier, 2) + sess.bmc_units(tier, 3) + sess.bmc_units(tier, 4, f) + _huge_units()


def _hugeid(ctx, shape):
    S, M = ctx.L.session, ctx.L.messages
    srv = S.LDAPServer()
    if shape["pre"] == "opened":
        srv.receive(M.ExtendedRequest(1, [], "1.2", None).pack(M.PackingOptions()))
    mid = 10**4400
    op = shape["op"]
    before = sess.pending(ctx, srv)
    try:
        if op == "bind_response":
            srv.bind_response(mid)
        elif op == "extended_response":
            srv.extended_response(mid, "1.2")
        elif op == "notice":
            srv.extended_response(mid, sess.NOTICE)
        elif op == "search_entry":
            srv.search_result_entry(mid, "cn=a", [])
        elif op == "search_reference":
            srv.search_result_reference(mid, ["ldap://x"])
        else:
            srv.search_result_done(mid)
        ctx.fail("C10:response-emitted-for-a-request-that-is-not-outstanding", "huge-message-id:" + op)
    except Exception as e:  # noqa: BLE001
        if not isinstance(e, S.LDAPError):
            # reported under a signature of its own: the id has more digits than CPython converts to
            # text, and the refusal builds its message from the id
            ctx.report("C10:refusal-of-a-huge-message-id-fails-with-foreign-exception", f"{op}:{type(e).__name__}")
    ctx.require(ctx.eq(sess.pending(ctx, srv), before), "C10:refused-call-left-bytes-queued:" + op)


def body(ctx, shape):
    if shape["kind"] == "hugeid":
        return _hugeid(ctx, shape)
    if shape["kind"] == "step":
        return sess.run_step(ctx, shape, PROPS)
    return sess.run_bmc(ctx, shape, PROPS)
