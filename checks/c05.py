"""C05 - receiving arbitrary bytes either yields messages or fails closed.

(a) every byte string up to N octets (all octets symbolic) into a client and a server in every
    pre-state, delivered whole and cut in two at every position;
(b) k-octet symbolic windows at every offset of seed encodings of every message kind (covers every
    single-node tag/length/content edit with all values), whole and cut in two;
(c) every truncation of every seed.
Oracle: return value is a list or ProtocolError is raised - nothing else; afterwards CLOSED, further
input refused; attached notification strict-decodes (reference RFC 4511 decoder) to unbind/notice.
"""
from checks import common

PROPERTY = "C05"
LEVEL = "model_checking"
OPTIONS = {
    "quick": {"max_paths": 100000, "unit_budget_s": 600},
    "thorough": {"max_paths": 1500000, "unit_budget_s": 3300},
}
BOUNDS = {
    "quick": {"raw_bytes": "all byte strings of length <= 7 (fresh server) / <= 6 (fresh client) / <= 4 (other pre-states)", "window": "2 symbolic octets at every offset of 11 seed messages, delivered to the matching side and to the other side", "cuts": "whole delivery and every 2-chunk cut for raw strings of length <= 4; windows delivered whole and cut once in the middle of the window", "pre_states": "client/server x fresh/opened/search/binding", "histories": "every pair of application calls (accepted or refused) followed by a delivered message of every kind with a symbolic id 0..6"},
    "thorough": {"raw_bytes": "all byte strings of length <= 9 (fresh server) / <= 8 (fresh client) / <= 6 (other pre-states)", "window": "3 symbolic octets at every offset", "cuts": "every 2-chunk cut for raw strings <= 5", "pre_states": "same"},
}
OUTSIDE = [
    "corruption wider than the window in long messages",
    "nesting deep enough to exhaust the interpreter stack (a SearchRequest filter nested ~500 levels makes receive raise RecursionError; that depth is beyond any bound explored here and is NOT claimed)",
    "more than two chunks for arbitrary bytes (C02's one-step lemma covers re-chunking)",
]
ASSUMPTIONS = [
    "session pre-states are built through the public API with concrete histories",
    "error-message formatting is stubbed in the symbolic run; the notification check is repeated on the real bytes in the per-path validation",
]
EXPLANATION = "symbolic execution of LDAPClient/LDAPServer.receive on symbolic byte strings; one path per parse behaviour, each path covering all byte values satisfying its condition"


QUICK_SEEDS = ["bind_simple", "bind_sasl", "bind_response_ref", "unbind", "search_request_small", "search_entry", "search_done", "search_reference", "extended_request", "extended_response", "notice"]


def units(tier):
    us = []
    quick = tier == "quick"
    for side in ("server", "client"):
        pres = common.SERVER_PRE if side == "server" else common.CLIENT_PRE
        for pre in pres:
            if quick:
                nmax = (7 if side == "server" else 6) if pre == "fresh" else 4
                cutmax = 3
            else:
                nmax = (9 if side == "server" else 8) if pre == "fresh" else 6
                cutmax = 5
            for n in range(0, nmax + 1):
                parts = common.raw_parts(n)
                for part in parts:
                    us.append({"name": f"raw_{side}_{pre}_n{n}" + (f"_p{part}" if part is not None else ""), "shape": {"kind": "raw", "side": side, "pre": pre, "n": n, "cut": None, "part": part}})
                if n <= cutmax and pre in ("fresh", "search"):
                    for cut in range(0, n + 1):
                        us.append({"name": f"raw_{side}_{pre}_n{n}_cut{cut}", "shape": {"kind": "raw", "side": side, "pre": pre, "n": n, "cut": cut, "part": None}})
    lens = _seed_lengths()
    for name, ln in lens.items():
        if quick and name not in QUICK_SEEDS:
            continue
        side = "server" if name in common.REQUESTS else "client"
        pre = "search" if side == "client" else "fresh"
        if name.startswith("bind_response"):
            pre = "binding"
        for k in ((2,) if quick else (2, 3)):
            for off in range(0, ln - k + 1):
                if k == 3 and (ln > 60 and off % 4):
                    continue
                us.append({"name": f"win{k}_{name}_o{off}", "shape": {"kind": "win", "seed": name, "side": side, "pre": pre, "off": off, "k": k, "cut": None}})
                if not quick and k == 2 and off % 3 == 0:
                    us.append({"name": f"win{k}_{name}_o{off}_cut", "shape": {"kind": "win", "seed": name, "side": side, "pre": pre, "off": off, "k": k, "cut": off + 1}})
                if k == 2:
                    # the same bytes delivered to the *other* kind of session (a server fed a
                    # response, a client fed a request): still only a ProtocolError may come out
                    other = "client" if side == "server" else "server"
                    us.append({"name": f"xwin{k}_{name}_o{off}", "shape": {"kind": "win", "seed": name, "side": other, "pre": "opened", "off": off, "k": k, "cut": None}})
        us.append({"name": f"trunc_{name}", "shape": {"kind": "trunc", "seed": name, "side": side, "pre": pre}})
        us.append({"name": f"trail_{name}", "shape": {"kind": "trail", "seed": name, "side": side, "pre": pre}})
    for what in ("response_id", "request_id", "result_code", "search_limits", "bind_version", "paged_size"):
        for vn in ("d4400", "neg_d4400", "b1024"):
            for side, pre in (("client", "search"), ("server", "fresh"), ("server", "opened")):
                us.append({"name": f"huge_{what}_{vn}_{side}_{pre}", "shape": {"kind": "huge", "what": what, "value": vn, "side": side, "pre": pre}})
    for side, pre in (("client", "search"), ("server", "fresh")):
        us.append({"name": f"batch_{side}", "shape": {"kind": "batch", "n": 1500, "side": side, "pre": pre}})
    for what in ("notice", "ext_response", "ext_request", "bind_request", "search_done"):
        for chn, phases in (("a", (0,)), ("e", (0, 1)), ("k", (0, 1, 2)), ("s", (0, 1, 2, 3))):
            for ph in phases:
                for side, pre in (("client", "search"), ("server", "opened")):
                    us.append({"name": f"longtext_{what}_{chn}{ph}_{side}", "shape": {"kind": "longtext", "what": what, "ch": chn, "phase": ph, "side": side, "pre": pre}})
    # prior session histories: two application calls (accepted or refused), then a delivered
    # message of every kind whose id is symbolic
    import itertools

    from checks import sess as S_

    hist_ops = {"client": ["bind_simple", "search", "extended", "unbind"], "server": ["recv_bind_request", "recv_search_request", "bind_response", "search_done", "extended_response"]}
    recv_ops = {"client": [o for o in S_.CLIENT_OPS if o.startswith("recv_")], "server": [o for o in S_.SERVER_OPS if o.startswith("recv_")]}
    for side in ("client", "server"):
        for h in itertools.product(hist_ops[side], repeat=2):
            for r in recv_ops[side]:
                us.append({"name": f"hist_{side}_{'+'.join(h)}_{r}", "shape": {"kind": "hist", "side": side, "pre": "fresh", "hist": list(h), "recv": r}})
    return us


def _seed_lengths():
    import sx.loader as loader
    import sx.harness as H
    import importlib

    loader.load_real()
    lib = H.Lib(lambda n: importlib.import_module(f"sansldap.{n}"), None)
    ctx = H.RealCtx(lib, {})
    return {k: len(v.pack(common.po(ctx))) for k, v in common.seed_messages(ctx).items()}


def body(ctx, shape):
    side, pre = shape["side"], shape["pre"]
    kind = shape["kind"]
    if kind == "trunc":
        seed = common.seed_bytes(ctx, shape["seed"])
        for t in range(0, len(seed)):
            sess = common.make_session(ctx, side, pre)
            r = common.checked_receive(ctx, sess, side, seed[:t], f"@{t}")
            if r[0] == "ok":
                ctx.require(len(r[1]) == 0, "truncated-message-yields-nothing")
                # the rest arrives later: the message must come out (or an orderly protocol error)
                common.checked_receive(ctx, sess, side, seed[t:], f"@{t}+")
        return
    if kind == "hist":
        from checks import sess as S_

        S = ctx.L.session
        sess_ = S.LDAPClient() if side == "client" else S.LDAPServer()
        for i, op in enumerate(shape["hist"]):
            S_.do_op(ctx, sess_, side, op, f"h{i}")  # refusals (LDAPError) are part of the history
        if sess_.state.name == "CLOSED":
            return
        mid = ctx.int("mid", 0, 6)
        code = ctx.int("code", 0, 80)
        data = S_.message_for(ctx, shape["recv"], mid, code).pack(S_.po(ctx))
        common.checked_receive(ctx, sess_, side, data)
        return
    if kind == "batch":
        # thousands of complete messages in ONE delivery (a flat repetition, not nesting): the
        # session has to return them all - work or recursion that grows with the count shows here
        M = ctx.L.messages
        n = shape["n"]
        po = M.PackingOptions()
        if side == "client":
            one = M.SearchResultEntry(1, [], "cn=a", []).pack(po)
            ref = M.SearchResultReference(1, [], ["ldap://x"]).pack(po)
            data = bytes(one) * n + bytes(ref) * n + bytes(M.SearchResultDone(1, [], M.LDAPResult(M.LDAPResultCode.SUCCESS, "", "")).pack(po))
            total = 2 * n + 1
        else:
            data = b"".join(bytes(M.ExtendedRequest(i, [], "1.2", None).pack(po)) for i in range(1, n + 1))
            total = n
        sess_ = common.make_session(ctx, side, pre)
        r = common.checked_receive(ctx, sess_, side, data)
        if r[0] == "ok":
            ctx.require(len(r[1]) == total, "long-delivery-did-not-return-every-message")
        return
    if kind == "longtext":
        # long peer-controlled text (thousands of octets, characters of 1-4 octets at every phase):
        # whatever the session does with it - echo it in an error text, truncate it for a notice -
        # only a list or ProtocolError may come out, and an attached notification is well-formed
        M = ctx.L.messages
        ch = {"a": "a", "e": "\u00e9", "k": "\u20ac", "s": "\U0001f600"}[shape["ch"]]
        text = ("a" * shape["phase"]) + ch * 700
        R = M.LDAPResult(M.LDAPResultCode.UNAVAILABLE, text, text)
        msgs_ = {
            "notice": M.ExtendedResponse(0, [], R, common.NOTICE_OID.decode(), None),
            "ext_response": M.ExtendedResponse(1, [], R, text, None),
            "ext_request": M.ExtendedRequest(1, [], text, None),
            "bind_request": M.BindRequest(1, [], 3, text, ctx.L.auth.SimpleCredential(text)),
            "search_done": M.SearchResultDone(1, [], R),
        }
        data = bytes(msgs_[shape["what"]].pack(M.PackingOptions()))
        common.checked_receive(ctx, common.make_session(ctx, side, pre), side, data)
        return
    if kind == "huge":
        # integers far beyond any machine word (ids, result codes, limits of thousands of octets):
        # whatever the session does with them - compare, store, put into an error text - only a
        # list or ProtocolError may come out (CPython refuses to print ints of > 4300 digits)
        M, F = ctx.L.messages, ctx.L.filter
        big = {"d4400": 10**4400, "neg_d4400": -(10**4400), "b1024": 2**1024}[shape["value"]]
        R = M.LDAPResult(M.LDAPResultCode.SUCCESS, "", "")
        msgs_ = {
            "response_id": M.ExtendedResponse(big, [], R, "1.2", None),
            "request_id": M.ExtendedRequest(big, [], "1.2", None),
            "result_code": M.ExtendedResponse(1, [], M.LDAPResult(M.LDAPResultCode(big), "", ""), None, None),
            "search_limits": M.SearchRequest(1, [], "", M.SearchScope.BASE, M.DereferencingPolicy.NEVER, big, big, False, F.FilterPresent("o"), []),
            "bind_version": M.BindRequest(1, [], big, "", ctx.L.auth.SimpleCredential("p")),
            "paged_size": M.SearchResultDone(1, [ctx.L.controls.PagedResultControl(False, big, b"c")], R),
        }
        data = bytes(msgs_[shape["what"]].pack(M.PackingOptions()))
        for cut in (None, len(data) // 2):
            sess_ = common.make_session(ctx, side, pre)
            if cut is None:
                common.checked_receive(ctx, sess_, side, data)
            else:
                r = common.checked_receive(ctx, sess_, side, data[:cut], "#1")
                if r[0] == "ok":
                    common.checked_receive(ctx, sess_, side, data[cut:], "#2")
        return
    if kind == "trail":
        data = common.with_trailing_element(ctx, common.seed_bytes(ctx, shape["seed"]), "x")
        common.checked_receive(ctx, common.make_session(ctx, side, pre), side, data)
        return
    if kind == "raw":
        data = ctx.bytes("data", shape["n"])
        common.assume_part(ctx, data, shape.get("part"))
    else:
        seed = common.seed_bytes(ctx, shape["seed"])
        w = ctx.bytes("w", shape["k"])
        off = shape["off"]
        data = seed[:off] + w + seed[off + shape["k"] :]
    sess = common.make_session(ctx, side, pre)
    cut = shape["cut"]
    if cut is None:
        common.checked_receive(ctx, sess, side, data)
    else:
        r = common.checked_receive(ctx, sess, side, data[:cut], "#1")
        if r[0] == "ok":
            common.checked_receive(ctx, sess, side, data[cut:], "#2")
