"""C11 - a client and a server session interoperate under any interleaving.

Joint bounded model checking on the real LDAPClient / LDAPServer joined by two byte pipes.  A
schedule is a sequence of actions: client application calls (bind, search, extended, unbind),
server application calls (final response of the matching kind to the oldest request it has seen,
a search entry, unbind), and deliveries in either direction of everything / one octet / half of
what is in the pipe (so partial PDUs sit in the pipes between calls).  Result codes and payloads
are symbolic.  Schedules in which an application call is refused by its own session are outside
the property's premise and are discarded (assume).
Obligations after every action: no exception except the designed terminations; every message
received equals, in order, the next message that was sent (exactly once); whenever both pipes are
empty the two sides agree on the state (BEFORE_OPEN ~ OPENED) and on the operations in progress.
"""
import itertools

from checks import msgs, sess
from sx.harness import exc_site

PROPERTY = "C11"
LEVEL = "model_checking"
OPTIONS = {"quick": {"max_paths": 20000, "unit_budget_s": 600}, "thorough": {"max_paths": 200000, "unit_budget_s": 1800}}
ACTIONS = ["c_bind", "c_search", "c_ext", "c_unbind", "s_final", "s_entry", "s_unbind", "s_notice", "d_cs_all", "d_cs_1", "d_cs_half", "d_sc_all", "d_sc_1", "d_sc_half"]
BOUNDS = {
    "quick": {"schedules": "every sequence of 3 actions out of 14, plus every sequence of 5 over the 6 'whole delivery' actions, plus 12 scripted scenarios of 6..10 actions (SASL multi-step bind, search with entries and done, pipelined requests, unbind mid-flight, byte-by-byte delivery); two scenarios in which a long and a short message are in the pipe and are delivered in three chunks with both cut positions solver variables (every three-chunk partition)", "contents": "result codes 0..80 symbolic, one symbolic payload octet per request"},
    "thorough": {"schedules": "every sequence of 4 actions out of 14; every sequence of 7 over the 6 whole-delivery actions; scripted scenarios"},
}
OUTSIDE = ["schedules longer than the bounds that are not scripted", "the one-step joint induction sketched in DESIGN.md was not built: the claim is the BMC bound"]
ASSUMPTIONS = ["applications only make calls their session accepts and answer with the matching kind (premise of the property)", "byte-level re-chunking beyond all/1/half is covered by C02's lemma"]
EXPLANATION = "symbolic execution of both real sessions along every bounded schedule; message equality and agreement at quiescence are z3 validity queries"

WHOLE = ["c_bind", "c_search", "c_ext", "s_final", "d_cs_all", "d_sc_all"]
SCRIPTS = {
    "sasl_bind": ["c_bind", "d_cs_all", "s_final", "d_sc_all", "c_bind", "d_cs_all", "s_final", "d_sc_all", "c_search"],
    "search_flow": ["c_search", "d_cs_all", "s_entry", "s_entry", "d_sc_half", "s_final", "d_sc_all", "d_sc_all"],
    "pipelined": ["c_search", "c_ext", "c_ext", "d_cs_half", "d_cs_all", "s_final", "s_final", "s_final", "d_sc_all"],
    "bytewise": ["c_ext", "d_cs_1", "d_cs_1", "d_cs_1", "d_cs_all", "s_final", "d_sc_1", "d_sc_1", "d_sc_all"],
    "unbind_midflight": ["c_search", "d_cs_all", "s_entry", "c_unbind", "d_sc_all", "d_cs_all"],
    "bind_then_ops": ["c_bind", "d_cs_all", "s_final", "d_sc_all", "c_ext", "c_search", "d_cs_all", "s_final", "s_final", "d_sc_all"],
    "server_unbind": ["c_ext", "d_cs_all", "s_unbind", "d_sc_all"],
    "interleaved_halves": ["c_ext", "c_search", "d_cs_half", "s_final", "d_cs_half", "d_sc_half", "d_cs_all", "s_final", "d_sc_all", "d_sc_all"],
    "entry_before_delivery": ["c_search", "d_cs_all", "s_entry", "c_ext", "d_sc_all", "d_cs_all", "s_final", "s_final", "d_sc_all"],
    "rebind": ["c_bind", "d_cs_all", "s_final", "d_sc_all", "c_bind", "d_cs_all", "s_final", "d_sc_all"],
    "two_searches": ["c_search", "c_search", "d_cs_all", "s_entry", "s_final", "s_entry", "s_final", "d_sc_all"],
    "bind_partial": ["c_bind", "d_cs_half", "d_cs_1", "d_cs_all", "s_final", "d_sc_half", "d_sc_all"],
    "ops_then_bind": ["c_ext", "d_cs_all", "s_final", "d_sc_all", "c_bind", "d_cs_all", "s_final", "d_sc_all", "c_search", "d_cs_all"],
    "search_then_bind": ["c_search", "d_cs_all", "s_entry", "s_final", "d_sc_all", "c_bind", "d_cs_half", "d_cs_all", "s_final", "d_sc_all"],
    "reassembled_then_more": ["c_ext", "d_cs_1", "d_cs_half", "d_cs_all", "c_ext", "d_cs_all", "s_final", "s_final", "d_sc_half", "d_sc_all", "c_search", "d_cs_all", "s_entry", "d_sc_all"],
    "reassembled_then_empty": ["c_search", "d_cs_half", "d_cs_all", "s_entry", "d_sc_1", "d_sc_all", "s_final", "d_sc_all", "c_ext", "d_cs_all"],
    "rich_search": ["c_search_rich", "d_cs_half", "d_cs_all", "s_final", "d_sc_all"],
    "rich_entries": ["c_search", "d_cs_all", "s_entry_rich", "s_ref", "d_sc_half", "d_sc_all", "s_final_rich", "d_sc_all"],
    "rich_bind": ["c_bind_rich", "d_cs_all", "s_final_rich", "d_sc_all"],
    "rich_ext": ["c_ext", "d_cs_all", "s_final_rich", "d_sc_half", "d_sc_all"],
    "cut3_long_short": ["c_search", "c_ext", "d_cs_cut", "d_cs_cut", "d_cs_all", "s_final", "s_final", "d_sc_all"],
    "cut3_entry_final": ["c_search", "d_cs_all", "s_entry_rich", "s_final", "d_sc_cut", "d_sc_cut", "d_sc_all", "c_ext", "d_cs_all"],
    "notice_alone": ["c_ext", "d_cs_all", "s_notice", "d_sc_all"],
    "notice_after_response": ["c_search", "c_ext", "d_cs_all", "s_final", "s_notice", "d_sc_all"],
    "notice_split": ["c_search", "c_ext", "d_cs_all", "s_final", "d_sc_all", "s_notice", "d_sc_half", "d_sc_all"],
}


LAZY_SCRIPTS = {
    # the application queues several calls before it flushes, flushes partially, unbinds with output pending
    "lazy_unbind": ["c_search", "c_unbind", "f_c", "d_cs_all"],
    "lazy_partial_unbind": ["c_ext", "f_c_part", "c_unbind", "f_c", "d_cs_1", "d_cs_all"],
    "lazy_pipeline": ["c_search", "c_ext", "f_c_part", "d_cs_all", "f_c", "d_cs_all", "s_final", "s_entry", "s_final", "f_s_part", "d_sc_all", "f_s", "d_sc_all"],
    "lazy_server_unbind": ["c_ext", "f_c", "d_cs_all", "s_final", "s_unbind", "f_s", "d_sc_all"],
}


def units(tier):
    us = []
    for n, seq in LAZY_SCRIPTS.items():
        us.append({"name": "script_" + n, "shape": {"acts": seq, "autoflush": False}})
    k = 3 if tier == "quick" else 4
    for seq in itertools.product(ACTIONS, repeat=k):
        us.append({"name": "bmc_" + "+".join(seq), "shape": {"acts": list(seq)}})
    k2 = 5 if tier == "quick" else 7
    for seq in itertools.product(WHOLE, repeat=k2):
        if seq[0].startswith(("s_", "d_")):
            continue
        us.append({"name": "whole_" + "+".join(seq), "shape": {"acts": list(seq)}})
    for n, seq in SCRIPTS.items():
        if n.startswith("cut3"):
            for p in range(8):
                us.append({"name": f"script_{n}_m{p}", "shape": {"acts": seq, "cutmod": [8, p]}})
            continue
        us.append({"name": "script_" + n, "shape": {"acts": seq}})
    return us


def decode_all(ctx, data):
    """messages in a byte string, by the library's own decoder on a private reader (the value a
    sent message denotes; equality of encoder and decoder is C01's subject)"""
    M, A = ctx.L.messages, ctx.L.asn1
    rd = A.ASN1Reader(data)
    out = []
    while rd:
        out.append(M.unpack_ldap_message(rd, M.PackingOptions()))
    return out


def body(ctx, shape):
    S, M = ctx.L.session, ctx.L.messages
    c, s = S.LDAPClient(), S.LDAPServer()
    pipe = {"cs": b"", "sc": b""}
    sent = {"cs": [], "sc": []}      # messages put on the wire, in order
    recvd = {"cs": 0, "sc": 0}       # how many of them have been returned by the peer
    pending = []                     # (id, kind) of requests the server application has seen
    binds = 0
    term = [False]                   # a designed termination happened (in-flight messages may be dropped)
    autoflush = shape.get("autoflush", True)
    queued = {"cs": b"", "sc": b""}  # (lazy mode) what each side has queued but not put on the wire

    def app(fn, who):
        """an application call: refused => the schedule is outside the premise"""
        try:
            fn()
        except Exception as e:  # noqa: BLE001
            if isinstance(e, S.LDAPError) and not isinstance(e, S.ProtocolError):
                ctx.assume(False)
            ctx.fail("application-call-raises", f"{type(e).__name__}@{exc_site(e)}")
        sess_ = c if who == "c" else s
        d = "cs" if who == "c" else "sc"
        if not autoflush:
            # the application does not flush after every call: what the call queued is learned from
            # a drained deep copy; the wire only gets bytes at the explicit flush actions
            now = sess.pending(ctx, sess_)
            new = now[len(queued[d]) :] if len(now) >= len(queued[d]) else b""
            queued[d] = now
            if len(new):
                try:
                    sent[d].extend(decode_all(ctx, new))
                except Exception as e:  # noqa: BLE001
                    ctx.fail("library-cannot-decode-what-it-sent", f"{type(e).__name__}@{exc_site(e)}")
            return
        data = ctx.tobytes(sess_.data_to_send())
        if len(data):
            pipe[d] = pipe[d] + data
            try:
                sent[d].extend(decode_all(ctx, data))
            except Exception as e:  # noqa: BLE001
                # the peer runs the same decoder on the same bytes: it cannot receive this message
                ctx.fail("library-cannot-decode-what-it-sent", f"{type(e).__name__}@{exc_site(e)}")

    def flush(who, amount=None):
        sess_ = c if who == "c" else s
        d = "cs" if who == "c" else "sc"
        data = ctx.tobytes(sess_.data_to_send(amount) if amount is not None else sess_.data_to_send())
        pipe[d] = pipe[d] + data
        queued[d] = sess.pending(ctx, sess_)

    def sent_is(d, **fields):
        """the message just put on the wire carries the arguments of the call"""
        m = sent[d][-1]
        for k, v in fields.items():
            ctx.require(ctx.eq(getattr(m, k), v), "sent-message-differs-from-the-call-arguments:" + k)

    ncut = [0]

    def deliver(d, how):
        src, dst = (c, s) if d == "cs" else (s, c)
        if dst.state.name == "CLOSED":
            # the connection is gone: bytes still in flight towards a closed session are dropped
            pipe[d] = b""
            term[0] = True
            return
        buf = pipe[d]
        n = len(buf)
        if how == "cut":
            # any number of octets (solver variable): with two of these followed by "all" every
            # three-chunk partition of what is in the pipe is covered
            ncut[0] += 1
            k = ctx.int(f"cut{ncut[0]}", 0, n)
            if ncut[0] == 1 and shape.get("cutmod"):
                ctx.assume(k % shape["cutmod"][0] == shape["cutmod"][1])  # work split over units
        else:
            k = n if how == "all" else (1 if how == "1" else n // 2)
            k = min(k, n)
        chunk, pipe[d] = buf[:k], buf[k:]
        try:
            got = dst.receive(chunk)
        except Exception as e:  # noqa: BLE001
            if type(e).__name__ != "ProtocolError":
                ctx.fail("receive-raises", f"{type(e).__name__}@{exc_site(e)}")
            req = e.request
            designed = req is not None and (type(req).__name__ == "UnbindRequest" or (type(req).__name__ == "ExtendedResponse" and req.name == sess.NOTICE))
            if not designed:
                ctx.fail("protocol-error-in-a-valid-run", exc_site(e))
            got = [req]
            term[0] = True
            ctx.observe("terminated", type(req).__name__)
            # messages that arrived in the same delivery before the terminating one are not handed
            # to the application (receive raises): reported under its own signature
            j = recvd[d]
            while j < len(sent[d]) and type(sent[d][j]).__name__ != type(req).__name__:
                j += 1
            if j < len(sent[d]) and j > recvd[d]:
                ctx.report("messages-preceding-a-termination-in-the-same-delivery-are-dropped", type(req).__name__)
                recvd[d] = j
        for m in got:
            i = recvd[d]
            if i >= len(sent[d]):
                ctx.fail("received-a-message-that-was-not-sent")
            ctx.require(msgs.msg_eq(ctx, m, sent[d][i]), "received-message-differs-from-sent")
            recvd[d] = i + 1
            if d == "cs":
                kind = type(m).__name__
                if kind in ("BindRequest", "SearchRequest", "ExtendedRequest"):
                    pending.append((m.message_id, kind))

    for step, act in enumerate(shape["acts"]):
        tag = f"a{step}"
        if act == "c_bind":
            binds += 1
            app(lambda: c.bind_sasl("X", None, ctx.bytes(f"{tag}.cred", 1)), "c")
        elif act == "c_search":
            app(lambda: c.search_request(ctx.str(f"{tag}.base", 1, 0x61, 0x7A)), "c")
        elif act == "c_search_rich":
            a = dict(
                base_object=ctx.str(f"{tag}.base", 1, 0, 0x10FFFF),
                scope=M.SearchScope(ctx.int(f"{tag}.scope", 0, 2)),
                dereferencing_policy=M.DereferencingPolicy(ctx.int(f"{tag}.deref", 0, 3)),
                size_limit=ctx.int(f"{tag}.size", 0, 2**31 - 1),
                time_limit=ctx.int(f"{tag}.time", 0, 127),
                types_only=ctx.bool(f"{tag}.typesonly"),
                attributes=[ctx.str(f"{tag}.attr", 1, 0x61, 0x7A), "*"],
            )
            F_ = ctx.L.filter
            which = ctx.int(f"{tag}.filter", 0, 4)
            for wi, mk in enumerate((lambda: F_.FilterAnd([]), lambda: F_.FilterOr([]), lambda: F_.FilterNot(F_.FilterPresent("o")), lambda: F_.FilterEquality("cn", ctx.bytes(f"{tag}.fv", 1)))):
                if ctx.is_true(which == wi):
                    a["filter"] = mk()
                    break
            n0 = len(sent["cs"])
            app(lambda: c.search_request(**a), "c")
            if len(sent["cs"]) > n0:
                a["deref_aliases"] = a.pop("dereferencing_policy")
                sent_is("cs", **{k: v for k, v in a.items() if hasattr(sent["cs"][-1], k)})
        elif act == "c_bind_rich":
            binds += 1
            dn, pw = ctx.str(f"{tag}.dn", 1, 0x20, 0x7E), ctx.str(f"{tag}.pw", 1, 0, 0x10FFFF)
            n0 = len(sent["cs"])
            app(lambda: c.bind_simple(dn, pw), "c")
            if len(sent["cs"]) > n0:
                sent_is("cs", name=dn)
                ctx.require(ctx.eq(sent["cs"][-1].authentication.password, pw), "sent-message-differs-from-the-call-arguments:password")
        elif act == "s_entry_rich":
            srch = [p for p in pending if p[1] == "SearchRequest"]
            if not srch:
                ctx.assume(False)
            dn = ctx.str(f"{tag}.dn", 1, 0, 0x10FFFF)
            attrs = [M.PartialAttribute(ctx.str(f"{tag}.an", 1, 0x61, 0x7A), [ctx.bytes(f"{tag}.av", 2), b""]), M.PartialAttribute("e", [])]
            n0 = len(sent["sc"])
            app(lambda: s.search_result_entry(srch[0][0], dn, attrs), "s")
            if len(sent["sc"]) > n0:
                sent_is("sc", object_name=dn)
                got_attrs = sent["sc"][-1].attributes
                ctx.require(len(got_attrs) == 2 and ctx.eq(got_attrs[0].name, attrs[0].name) and len(got_attrs[0].values) == 2 and ctx.eq(got_attrs[0].values[0], attrs[0].values[0]), "sent-message-differs-from-the-call-arguments:attributes")
        elif act == "s_ref":
            srch = [p for p in pending if p[1] == "SearchRequest"]
            if not srch:
                ctx.assume(False)
            uri = ctx.str(f"{tag}.uri", 2, 0x21, 0x7E)
            n0 = len(sent["sc"])
            app(lambda: s.search_result_reference(srch[0][0], [uri, "ldap://b"]), "s")
            if len(sent["sc"]) > n0:
                ctx.require(len(sent["sc"][-1].uris) == 2 and ctx.eq(sent["sc"][-1].uris[0], uri), "sent-message-differs-from-the-call-arguments:uris")
        elif act == "s_final_rich":
            if not pending:
                ctx.assume(False)
            mid, kind = pending.pop(0)
            rc = M.LDAPResultCode(ctx.int(f"{tag}.code", 0, 80))
            mdn, diag = ctx.str(f"{tag}.mdn", 1, 0x20, 0x7E), ctx.str(f"{tag}.diag", 1, 0, 0x7FF)
            n0 = len(sent["sc"])
            if kind == "BindRequest":
                cred = ctx.bytes(f"{tag}.cred", 1)
                app(lambda: s.bind_response(mid, cred, rc, mdn, diag), "s")
            elif kind == "SearchRequest":
                app(lambda: s.search_result_done(mid, rc, mdn, diag), "s")
            else:
                val = ctx.bytes(f"{tag}.val", 1)
                app(lambda: s.extended_response(mid, None, val, rc, mdn, diag), "s")
            if len(sent["sc"]) > n0:
                r = sent["sc"][-1].result
                ctx.require(ctx.all(ctx.eq(r.matched_dn, mdn), ctx.eq(r.diagnostics_message, diag), r.result_code == rc), "sent-message-differs-from-the-call-arguments:result")
                if kind == "ExtendedRequest":
                    ctx.require(ctx.eq(sent["sc"][-1].value, val), "sent-message-differs-from-the-call-arguments:value")
                    ctx.require(sent["sc"][-1].name is None, "sent-message-differs-from-the-call-arguments:name")
                if kind == "BindRequest":
                    ctx.require(ctx.eq(sent["sc"][-1].server_sasl_creds, cred), "sent-message-differs-from-the-call-arguments:creds")
        elif act == "c_ext":
            app(lambda: c.extended_request("1.2", ctx.bytes(f"{tag}.val", 1)), "c")
        elif act == "c_unbind":
            app(lambda: c.unbind(), "c")
        elif act == "s_unbind":
            app(lambda: s.unbind(), "s")
        elif act == "s_final":
            if not pending:
                ctx.assume(False)
            mid, kind = pending.pop(0)
            code = ctx.int(f"{tag}.code", 0, 80)
            rc = M.LDAPResultCode(code)
            if kind == "BindRequest":
                app(lambda: s.bind_response(mid, None, rc), "s")
            elif kind == "SearchRequest":
                app(lambda: s.search_result_done(mid, rc), "s")
            else:
                app(lambda: s.extended_response(mid, "1.2", None, rc), "s")
        elif act == "s_notice":
            if not pending:
                ctx.assume(False)
            mid, kind = pending.pop(0)
            app(lambda: s.extended_response(mid, sess.NOTICE, None, M.LDAPResultCode(ctx.int(f"{tag}.code", 0, 80))), "s")
        elif act == "s_entry":
            srch = [p for p in pending if p[1] == "SearchRequest"]
            if not srch:
                ctx.assume(False)
            app(lambda: s.search_result_entry(srch[0][0], "cn=a", []), "s")
        elif act in ("f_c", "f_s"):
            flush(act[-1])
        elif act in ("f_c_part", "f_s_part"):
            flush(act[2], 5)
        elif act.startswith("d_"):
            _, d, how = act.split("_")
            if len(pipe[d]):
                deliver(d, how)
        else:
            raise ValueError(act)
        ctx.observe(f"{step}:{act}", (c.state.name, s.state.name, len(pipe["cs"]), len(pipe["sc"])))
        # ---- agreement whenever everything sent has been delivered
        if len(pipe["cs"]) == 0 and len(pipe["sc"]) == 0 and (autoflush or (len(sess.pending(ctx, c)) == 0 and len(sess.pending(ctx, s)) == 0)):
            if not term[0]:
                ctx.require(recvd["cs"] == len(sent["cs"]) and recvd["sc"] == len(sent["sc"]), "message-lost-with-empty-pipes")
            norm = lambda st: "OPENED" if st == "BEFORE_OPEN" else st  # noqa: E731
            ctx.require(norm(c.state.name) == norm(s.state.name), "sides-disagree-on-state-at-quiescence")
            if c.state.name != "CLOSED":
                co, cs_, _ = sess.roles(ctx, "client")
                so, _, _ = sess.roles(ctx, "server")
                ctx.require(sess.set_eq(ctx, list(getattr(c, co)), list(getattr(s, so))), "sides-disagree-on-operations-in-progress")
                ctx.require(sess.set_eq(ctx, list(getattr(c, cs_)), [p[0] for p in pending if p[1] == "SearchRequest"]), "client-search-registry-disagrees-with-requests-seen")
