"""Shared pieces of the byte-side harnesses: seed messages, session pre-states, receive checks."""
from __future__ import annotations

from oracles import ref_ber
from sx.harness import exc_site

NOTICE_OID = b"1.3.6.1.4.1.1466.20036"
UNBIND_FORM = "UnbindRequest: [APPLICATION 2] NULL must be primitive"


def po(ctx):
    """fresh PackingOptions of the library under test"""
    return ctx.L.messages.PackingOptions()


# ---------------------------------------------------------------------- seed messages (concrete)
def seed_messages(ctx):
    """name -> library message object; every message kind, every filter node kind, every control form"""
    M, F, C, A = ctx.L.messages, ctx.L.filter, ctx.L.controls, ctx.L.auth
    R = M.LDAPResult
    flt = F.FilterAnd(
        [
            F.FilterOr([F.FilterEquality("cn", b"a"), F.FilterPresent("o")]),
            F.FilterNot(F.FilterSubstrings("sn", b"i", [b"m"], b"f")),
            F.FilterGreaterOrEqual("n", b"1"),
            F.FilterLessOrEqual("n", b"9"),
            F.FilterApproxMatch("g", b"x"),
            F.FilterExtensibleMatch("2.5.13.2", "cn", b"v", True),
        ]
    )
    ctrls = [
        C.LDAPControl("1.2.3", True, b"\x01"),
        C.LDAPControl("1.2.4", False, None),
        C.PagedResultControl(False, 5, b"ck"),
        C.ShowDeletedControl(True),
    ]
    return {
        "bind_simple": M.BindRequest(1, [], 3, "cn=a", A.SimpleCredential("pw")),
        "bind_sasl": M.BindRequest(1, [], 3, "", A.SaslCredential("GSSAPI", b"tok")),
        "bind_sasl_nocred": M.BindRequest(1, [], 3, "", A.SaslCredential("EXTERNAL", None)),
        "bind_response": M.BindResponse(1, [], R(M.LDAPResultCode.SUCCESS, "", ""), b"sc"),
        "bind_response_ref": M.BindResponse(1, [], R(M.LDAPResultCode.REFERRAL, "dc=x", "go", ["ldap://h"]), None),
        "bind_response_sasl": M.BindResponse(1, [], R(M.LDAPResultCode.SASL_BIND_IN_PROGRESS, "", ""), b"ch"),
        "unbind": M.UnbindRequest(1, []),
        "search_request": M.SearchRequest(1, ctrls, "dc=x", M.SearchScope.SUBTREE, M.DereferencingPolicy.ALWAYS, 10, 20, True, flt, ["cn", "*"]),
        "search_request_small": M.SearchRequest(1, [], "", M.SearchScope.BASE, M.DereferencingPolicy.NEVER, 0, 0, False, F.FilterPresent("objectClass"), []),
        "search_entry": M.SearchResultEntry(1, [], "cn=a", [M.PartialAttribute("cn", [b"a", b"b"]), M.PartialAttribute("e", [])]),
        "search_done": M.SearchResultDone(1, [C.PagedResultControl(True, 0, b"")], R(M.LDAPResultCode.SUCCESS, "", "")),
        "search_reference": M.SearchResultReference(1, [], ["ldap://a", "ldap://b"]),
        "extended_request": M.ExtendedRequest(1, [], "1.3.6.1.4.1.1466.20037", b"v"),
        "extended_request_noval": M.ExtendedRequest(1, [], "1.2", None),
        "extended_response": M.ExtendedResponse(1, [], R(M.LDAPResultCode.SUCCESS, "", ""), "1.2", b"v"),
        "extended_response_bare": M.ExtendedResponse(1, [], R(M.LDAPResultCode.OTHER, "", "d"), None, None),
        "notice": M.ExtendedResponse(0, [], R(M.LDAPResultCode.UNAVAILABLE, "", "bye"), NOTICE_OID.decode(), None),
    }


REQUESTS = ["bind_simple", "bind_sasl", "bind_sasl_nocred", "unbind", "search_request", "search_request_small", "extended_request", "extended_request_noval"]
RESPONSES = ["bind_response", "bind_response_ref", "bind_response_sasl", "search_entry", "search_done", "search_reference", "extended_response", "extended_response_bare", "notice"]


def seed_bytes(ctx, name):
    return bytes(seed_messages(ctx)[name].pack(po(ctx)))


# ---------------------------------------------------------------------- session pre-states
CLIENT_PRE = ["fresh", "opened", "search", "binding"]
SERVER_PRE = ["fresh", "opened", "search", "binding"]


def make_session(ctx, side, pre):
    """A session brought to a pre-state through its public API only (so the state is reachable)."""
    S = ctx.L.session
    if side == "client":
        c = S.LDAPClient()
        if pre == "opened":
            c.extended_request("1.2")
        elif pre == "search":
            c.search_request("dc=x")
            c.extended_request("1.2")
        elif pre == "binding":
            c.bind_simple("cn=a", "pw")
        elif pre == "closed":
            c.unbind()
        c.data_to_send()
        return c
    s = S.LDAPServer()
    if pre != "fresh":
        peer = S.LDAPClient()
        if pre == "opened":
            peer.extended_request("1.2")
        elif pre == "search":
            peer.search_request("dc=x")
            peer.extended_request("1.2")
        elif pre == "binding":
            peer.bind_simple("cn=a", "pw")
        elif pre == "closed":
            peer.unbind()
        try:
            s.receive(peer.data_to_send())
        except S.ProtocolError:
            pass
    return s


def state_name(sess):
    return sess.state.name


# ---------------------------------------------------------------------- the receive contract (C05)
def checked_receive(ctx, sess, side, data, tag=""):
    """One receive() call under the fail-closed contract.  -> ('ok', msgs) | ('closed', exc)"""
    S = ctx.L.session
    try:
        msgs = sess.receive(data)
    except Exception as e:  # noqa: BLE001
        name = type(e).__name__
        if name != "ProtocolError":
            ctx.observe("raises" + tag, name)
            ctx.fail("receive-raises", f"{name}@{exc_site(e)}")
        err = e
    else:
        ctx.observe("ret" + tag, len(msgs))
        ctx.require(isinstance(msgs, list), "receive-returns-list")
        return ("ok", msgs)
    ctx.observe("protocol-error" + tag, True)
    ctx.require(state_name(sess) == "CLOSED", "closed-after-protocol-error")
    # a closed session refuses further input and stays closed
    try:
        sess.receive(b"\x30\x05\x02\x01\x01\x42\x00")
    except Exception as e2:  # noqa: BLE001
        if type(e2).__name__ != "ProtocolError":
            ctx.fail("closed-receive-raises", f"{type(e2).__name__}@{exc_site(e2)}")
    else:
        ctx.fail("closed-session-accepts-input")
    ctx.require(state_name(sess) == "CLOSED", "closed-is-final-after-refusal")
    resp = err.response
    if resp is not None:
        check_notification(ctx, side, resp)
    return ("closed", err)


def check_notification(ctx, side, resp):
    """the bytes attached to a ProtocolError are a well-formed unbind (client) / notice (server)"""
    ref = ref_ber.Ref(ctx, "notification")
    ref.lenient_unbind = True
    try:
        m = ref.message(resp)
    except (ref_ber.RefError, ref_ber.Incomplete) as e:
        ctx.fail("notification-not-wellformed", f"{side}:{type(e).__name__}:{e}")
    if ref.saw_constructed_unbind:
        ctx.report("notification-not-wellformed", f"{side}:RefError:{UNBIND_FORM}")
    kind, fields = m["op"]
    ctx.observe("notification", kind)
    if side == "client":
        ctx.require(kind == "unbindRequest", "notification-is-unbind")
    else:
        ctx.require(kind == "extendedResp", "notification-is-extended-response")
        ctx.require(m["id"] == 0, "notice-message-id-zero")
        ctx.require(fields["name"] is not None and ctx.eq(fields["name"], NOTICE_OID), "notice-oid")
        ctx.require(fields["result"]["code"] == 2, "notice-result-protocol-error")


# ---------------------------------------------------------------------- the accounting contract (C06)
def check_accounting(ctx, delivered, returned_total, status):
    """error-free run: messages returned == complete outer TLVs delivered"""
    complete, residue, st = ref_ber.frame(ctx, delivered)
    if status == "ok" and st == "ok":
        ctx.observe("complete", complete)
        ctx.require(returned_total == complete, "complete-pdu-not-accounted", f"returned!=complete")
    return complete


# ---------------------------------------------------------------------- splitting the raw-bytes exploration
def raw_parts(n):
    """work split for all byte strings of length n (n >= 7): by the outer identifier and length octets"""
    if n < 7:
        return [None]
    return ["x"] + [f"L{k}" for k in range(0, n - 1)] + ["short", "long"]


def assume_part(ctx, data, part):
    n = len(data)
    if part is None or n == 0:
        return
    if isinstance(part, int):  # legacy: 16 classes of the first octet
        ctx.assume(ctx.all(data[0] >= part * 16, data[0] < (part + 1) * 16))
        return
    if part == "x":
        ctx.assume(data[0] != 0x30)
        return
    ctx.assume(data[0] == 0x30)
    if part == "short":
        ctx.assume(ctx.all(data[1] >= n - 1, data[1] < 128))
    elif part == "long":
        ctx.assume(data[1] >= 128)
    else:
        ctx.assume(data[1] == int(part[1:]))


def with_trailing_element(ctx, seed, name):
    """the seed message with one extra element [context/private, number 0..30, either form, one
    symbolic content octet] appended after its last top-level component"""
    from checks import c04

    (root,) = c04.parse(seed, 0, len(seed))
    t = ctx.int(f"{name}.t", 0x80, 0xFF)
    ctx.assume(t % 32 <= 30)
    content = ctx.bytes(f"{name}.c", 1)
    extra = c04._one(ctx, t) + bytes([1]) + content
    return c04.encode(root, lambda n: {"append": extra} if n is root else {})
