"""Message skeletons: shape is enumerated (kind, optionals, list lengths, filter tree, control
forms, which text field is 'rich', which field carries a threshold length); every content value is
a symbolic variable created through the harness context."""
from __future__ import annotations

KNOWN_CONTROLS = ("PagedResultControl", "ShowDeletedControl", "ShowDeactivatedLinkControl")

INT_BITS = {"quick": 63, "thorough": 127}


class Gen:
    """creates the symbolic fields of one message; names are deterministic"""

    def __init__(self, ctx, skel):
        self.ctx = ctx
        self.skel = skel
        self.n = 0
        self.rich = skel.get("rich")  # index of the text field that gets full-Unicode content
        self.tidx = 0
        self.bits = skel.get("int_bits", 63)
        self.big = skel.get("big")  # (field index, length) octet string with a threshold length
        self.bidx = 0
        self.wide = skel.get("wide")  # index of the int field that ranges over the full width
        self.iidx = 0

    def _name(self, p):
        self.n += 1
        return f"{p}{self.n}"

    def int(self, lo=None, hi=None):
        """one int field per skeleton is 'wide' (full signed range); the others stay in 0..127 so
        that they are distinct symbolic values without multiplying the paths (C07 covers the codec)"""
        i = self.iidx
        self.iidx += 1
        if self.wide is not None and i == self.wide:
            b = self.bits
            return self.ctx.int(self._name("i"), -(1 << b) if lo is None else lo, (1 << b) - 1 if hi is None else hi)
        return self.ctx.int(self._name("i"), 0 if lo is None else max(lo, 0), 127 if hi is None else min(hi, 127))

    def bool(self):
        return self.ctx.bool(self._name("b"))

    def text(self):
        i = self.tidx
        self.tidx += 1
        if self.skel.get("empty"):
            return ""
        if self.rich is not None and i == self.rich:
            n = self.skel.get("rich_len", 2)
            return self.ctx.str(self._name("t"), n, 0, self.skel.get("rich_hi", 0x10FFFF))
        n = self.skel.get("text_len", 1)
        return self.ctx.str(self._name("t"), n, 0x20, 0x7E)

    def octets(self):
        i = self.bidx
        self.bidx += 1
        if self.skel.get("empty"):
            return b""
        if self.big is not None and i == self.big[0]:
            L = self.big[1]
            a = self.ctx.bytes(self._name("o"), min(L, 1))
            z = self.ctx.bytes(self._name("o"), 1 if L >= 2 else 0)
            return a + bytes(max(0, L - 2)) + z
        return self.ctx.bytes(self._name("o"), self.skel.get("oct_len", 2))


def build_filter(g, L, spec):
    F = L.filter
    k = spec[0]
    if k in ("and", "or"):
        subs = [build_filter(g, L, s) for s in spec[1]]
        return (F.FilterAnd if k == "and" else F.FilterOr)(subs)
    if k == "not":
        return F.FilterNot(build_filter(g, L, spec[1]))
    if k in ("eq", "ge", "le", "approx"):
        cls = {"eq": F.FilterEquality, "ge": F.FilterGreaterOrEqual, "le": F.FilterLessOrEqual, "approx": F.FilterApproxMatch}[k]
        return cls(g.text(), g.octets())
    if k == "present":
        return F.FilterPresent(g.text())
    if k == "substrings":
        _, ini, nany, fin = spec
        return F.FilterSubstrings(g.text(), g.octets() if ini else None, [g.octets() for _ in range(nany)], g.octets() if fin else None)
    if k == "ext":
        _, rule, attr, dn = spec
        dnv = g.bool() if dn == "sym" else bool(dn)
        return F.FilterExtensibleMatch(g.text() if rule else None, g.text() if attr else None, g.octets(), dnv)
    raise ValueError(k)


def build_control(g, L, form):
    C = L.controls
    if form == "generic_noval":
        return C.LDAPControl(g.text(), g.bool(), None)
    if form == "generic_val":
        return C.LDAPControl(g.text(), g.bool(), g.octets())
    if form == "paged":
        return C.PagedResultControl(g.bool(), g.int(), g.octets())
    if form == "showdeleted":
        return C.ShowDeletedControl(g.bool())
    if form == "showdeactivated":
        return C.ShowDeactivatedLinkControl(g.bool())
    raise ValueError(form)


def build_result(g, L, nref, code="sym"):
    M = L.messages
    if code == "sym":
        rc = M.LDAPResultCode(g.int(0, (1 << 31) - 1))
    else:
        rc = M.LDAPResultCode(code)
    refs = None if nref is None else [g.text() for _ in range(nref)]
    return M.LDAPResult(rc, g.text(), g.text(), refs)


def build(ctx, skel, mid=None):
    """-> library message object with symbolic contents"""
    L = ctx.L
    M, A = L.messages, L.auth
    g = Gen(ctx, skel)
    message_id = g.int() if mid is None else mid
    controls = [build_control(g, L, f) for f in skel.get("controls", [])]
    k = skel["kind"]
    if k == "bind_request":
        auth = skel["auth"]
        if auth == "simple":
            a = A.SimpleCredential(g.text())
        elif auth == "sasl":
            a = A.SaslCredential(g.text(), g.octets())
        else:
            a = A.SaslCredential(g.text(), None)
        return M.BindRequest(message_id, controls, g.int(), g.text(), a)
    if k == "bind_response":
        return M.BindResponse(message_id, controls, build_result(g, L, skel.get("nref"), skel.get("code", "sym")), g.octets() if skel.get("creds") else None)
    if k == "unbind":
        return M.UnbindRequest(message_id, controls)
    if k == "search_request":
        return M.SearchRequest(
            message_id,
            controls,
            g.text(),
            M.SearchScope(g.int(0, 2)),
            M.DereferencingPolicy(g.int(0, 3)),
            g.int(),
            g.int(),
            g.bool(),
            build_filter(g, L, skel["filter"]),
            [g.text() for _ in range(skel.get("nattr", 0))],
        )
    if k == "search_entry":
        attrs = [M.PartialAttribute(g.text(), [g.octets() for _ in range(nv)]) for nv in skel.get("attrs", [])]
        return M.SearchResultEntry(message_id, controls, g.text(), attrs)
    if k == "search_done":
        return M.SearchResultDone(message_id, controls, build_result(g, L, skel.get("nref"), skel.get("code", "sym")))
    if k == "search_reference":
        return M.SearchResultReference(message_id, controls, [g.text() for _ in range(skel.get("nuri", 1))])
    if k == "extended_request":
        # (name_enum: the library's own str-enum member as the name, as its documentation suggests)
        name = getattr(L.session.ExtendedOperations, skel["name_enum"]) if skel.get("name_enum") else g.text()
        return M.ExtendedRequest(message_id, controls, name, g.octets() if skel.get("value") else None)
    if k == "extended_response":
        return M.ExtendedResponse(
            message_id,
            controls,
            build_result(g, L, skel.get("nref"), skel.get("code", "sym")),
            (getattr(L.session.ExtendedOperations, skel["name_enum"]) if skel.get("name_enum") else g.text()) if skel.get("name") else None,
            g.octets() if skel.get("value") else None,
        )
    raise ValueError(k)


# ---------------------------------------------------------------------- equality modulo the permitted difference
def msg_eq(ctx, a, b):
    """field-by-field equality; the raw `value` of library-known controls is ignored (C01 allows it)"""
    import dataclasses

    if type(a).__name__ != type(b).__name__:
        return False
    conds = []
    for f in dataclasses.fields(a):
        if f.name == "controls":
            ca, cb = a.controls, b.controls
            if len(ca) != len(cb):
                return False
            for x, y in zip(ca, cb):
                if type(x).__name__ != type(y).__name__:
                    return False
                for cf in dataclasses.fields(x):
                    if cf.name == "value" and type(x).__name__ in KNOWN_CONTROLS:
                        continue
                    conds.append(ctx.eq(getattr(x, cf.name), getattr(y, cf.name)))
        else:
            conds.append(ctx.eq(getattr(a, f.name), getattr(b, f.name)))
    return ctx.all(*conds)


# ---------------------------------------------------------------------- skeleton enumeration
LEAVES = [
    ["eq"],
    ["ge"],
    ["le"],
    ["approx"],
    ["present"],
    ["substrings", True, 0, False],
    ["substrings", False, 1, False],
    ["substrings", False, 0, True],
    ["substrings", True, 2, True],
    ["substrings", False, 0, False],
    ["ext", True, True, "sym"],
    ["ext", True, False, "sym"],
    ["ext", False, True, "sym"],
    ["ext", False, False, False],
]

CONTROL_SETS = [
    [],
    ["generic_noval"],
    ["generic_val"],
    ["paged"],
    ["showdeleted", "showdeactivated"],
    ["generic_val", "paged"],
]

THRESHOLDS = [127, 128, 255, 256, 65535, 65536]


def filter_specs(tier):
    specs = [(f"leaf{i}", s) for i, s in enumerate(LEAVES)]
    specs += [
        ("and0", ["and", []]),
        ("and1", ["and", [["eq"]]]),
        ("and2", ["and", [["present"], ["ge"]]]),
        ("or2", ["or", [["le"], ["approx"]]]),
        ("not_eq", ["not", ["eq"]]),
        ("not_not", ["not", ["not", ["present"]]]),
        ("d3", ["and", [["or", [["eq"], ["not", ["substrings", True, 1, True]]]], ["ext", True, True, "sym"]]]),
        ("d3b", ["or", [["and", [["not", ["present"]]]], ["and", []]]]),
    ]
    chain = ["present"]
    for _ in range(40):
        chain = ["not", chain]
    specs.append(("not40", chain))
    chain = ["eq"]
    for i in range(40):
        chain = ["and" if i % 2 else "or", [chain]]
    specs.append(("andor40", chain))
    if tier == "thorough":
        for i, a in enumerate(LEAVES):
            specs.append((f"and_leaf{i}", ["and", [a, ["present"]]]))
            specs.append((f"not_leaf{i}", ["not", a]))
        specs.append(("d4", ["not", ["and", [["or", [["not", ["eq"]], ["ge"]]], ["or", []]]]]))
    return specs


def skeletons(tier):
    """-> list of (name, skeleton dict)"""
    out = []
    bits = INT_BITS[tier]

    def add(_nm, **kw):
        kw.setdefault("int_bits", bits)
        out.append((_nm, kw))

    for a in ("simple", "sasl", "sasl_nocred"):
        add(f"bind_request_{a}", kind="bind_request", auth=a)
    for nref in (None, 0, 1, 2):
        for creds in (False, True):
            add(f"bind_response_ref{nref}_c{int(creds)}", kind="bind_response", nref=nref, creds=creds)
    add("unbind", kind="unbind")
    for fname, spec in filter_specs(tier):
        add(f"search_request_{fname}", kind="search_request", filter=spec, nattr=0 if fname.endswith("40") else 1)
    add("search_request_attrs2", kind="search_request", filter=["present"], nattr=2)
    for attrs in ([], [0], [1], [2, 0], [1, 2]):
        add("search_entry_" + "_".join(map(str, attrs)), kind="search_entry", attrs=attrs)
    for nref in (None, 0, 2):
        add(f"search_done_ref{nref}", kind="search_done", nref=nref)
    for n in (0, 1, 2):
        add(f"search_reference_{n}", kind="search_reference", nuri=n)
    for v in (False, True):
        add(f"extended_request_v{int(v)}", kind="extended_request", value=v)
    for nm in (False, True):
        for v in (False, True):
            add(f"extended_response_n{int(nm)}_v{int(v)}", kind="extended_response", name=nm, value=v, nref=None)
    for en in ("LDAP_START_TLS", "LDAP_NOTICE_OF_DISCONNECTION"):
        add(f"extended_request_enum_{en}", kind="extended_request", value=False, name_enum=en)
        add(f"extended_response_enum_{en}", kind="extended_response", name=True, value=False, nref=None, name_enum=en)
    add("extended_response_ref1", kind="extended_response", name=True, value=True, nref=1)
    # every control form on a small request and a small response
    for i, cs in enumerate(CONTROL_SETS[1:], 1):
        add(f"ctl{i}_extended_request", kind="extended_request", value=False, controls=cs)
        add(f"ctl{i}_search_done", kind="search_done", nref=None, controls=cs)
    add("ctl_unbind", kind="unbind", controls=["generic_val", "showdeleted"])
    # result codes: every member is covered by the symbolic code (member / non-member fork)
    # rich text: each text field in turn gets 2 code points over all of Unicode
    rich_targets = [
        ("bind_request", dict(kind="bind_request", auth="sasl"), 3),
        ("bind_request_simple", dict(kind="bind_request", auth="simple"), 2),
        ("bind_response", dict(kind="bind_response", nref=1, creds=False), 3),
        ("search_request", dict(kind="search_request", filter=["ext", True, True, False], nattr=1), 4),
        ("search_entry", dict(kind="search_entry", attrs=[1]), 2),
        ("search_reference", dict(kind="search_reference", nuri=1), 1),
        ("extended_request", dict(kind="extended_request", value=False), 1),
        ("extended_response", dict(kind="extended_response", name=True, value=False, nref=None), 3),
        ("ctl", dict(kind="unbind", controls=["generic_noval"]), 1),
    ]
    for nm, base, ntext in rich_targets:
        for r in range(ntext):
            kw = dict(base)
            kw.update(rich=r, rich_len=2 if tier == "quick" else 3, rich_hi=0x10FFFF)
            add(f"rich{r}_{nm}", **kw)
    # present-but-empty values: "" / b"" / [] are values, not absences
    empties = [
        ("bind_request_sasl", dict(kind="bind_request", auth="sasl")),
        ("bind_request_simple", dict(kind="bind_request", auth="simple")),
        ("bind_response", dict(kind="bind_response", nref=0, creds=True)),
        ("search_request_eq", dict(kind="search_request", filter=["and", [["eq"], ["substrings", True, 1, True], ["ext", True, True, False]]], nattr=1)),
        ("search_entry", dict(kind="search_entry", attrs=[1, 0])),
        ("search_done", dict(kind="search_done", nref=1)),
        ("search_reference", dict(kind="search_reference", nuri=1)),
        ("extended_request", dict(kind="extended_request", value=True)),
        ("extended_response", dict(kind="extended_response", name=True, value=True, nref=0)),
        ("ctl", dict(kind="unbind", controls=["generic_val", "paged"])),
    ]
    for nm, base in empties:
        kw = dict(base)
        kw["empty"] = True
        add(f"empty_{nm}", **kw)
    # each int field in turn over the full signed range (ids, version, limits, page size, result code)
    wide_targets = [
        ("bind_request", dict(kind="bind_request", auth="simple"), 2),
        ("bind_response", dict(kind="bind_response", nref=None, creds=False), 2),
        ("search_request", dict(kind="search_request", filter=["present"], nattr=0), 5),
        ("search_done_paged", dict(kind="search_done", nref=None, controls=["paged"]), 3),
        ("unbind", dict(kind="unbind"), 1),
    ]
    for nm, base, nint in wide_targets:
        for w in range(nint):
            kw = dict(base)
            kw.update(wide=w)
            add(f"wide{w}_{nm}", **kw)
    # threshold lengths, one octet-string field at a time
    big_targets = [
        ("bind_response", dict(kind="bind_response", nref=None, creds=True), 1),
        ("search_entry", dict(kind="search_entry", attrs=[2]), 2),
        ("extended_request", dict(kind="extended_request", value=True), 1),
        ("search_request_eq", dict(kind="search_request", filter=["eq"], nattr=0), 1),
        ("paged", dict(kind="search_done", nref=None, controls=["paged"]), 1),
    ]
    for nm, base, noct in big_targets:
        for L in THRESHOLDS if tier == "thorough" else [127, 128, 256, 65536]:
            for fi in range(noct):
                if tier == "quick" and fi > 0:
                    continue
                kw = dict(base)
                kw.update(big=[fi, L])
                add(f"big{L}_{fi}_{nm}", **kw)
    return out
