"""Session harness family (C08, C09, C10, C12, and the building blocks of C11/C19).

One public call from an arbitrary pre-state that satisfies the representation invariant
(inductive step), or k calls from the initial state (bounded model checking).  The expected
post-state comes from `ghost_*` - the documented state machine written independently of the
library - applied to the pre-state read off the session before the call.

Symbolic run: the pre-state is injected (state enum, id sets with symbolic members, symbolic
counter, opaque outgoing octets).  Real run (path validation and every replay): the same abstract
pre-state is *reached through the public API* by `reach_*`, so a counterexample that depends on an
unreachable pre-state cannot reproduce and is never reported.
"""
from __future__ import annotations

from oracles import ref_ber
from sx.harness import exc_site
from checks.common import NOTICE_OID, UNBIND_FORM

NOTICE = NOTICE_OID.decode()
IDMAX = 60  # ids and counters stay single-octet INTEGERs (C07/C01 cover the codec)
STATES = ["BEFORE_OPEN", "BINDING", "OPENED", "CLOSED"]

CLIENT_OPS = ["bind_simple", "bind_sasl", "search", "extended", "unbind", "drain", "drain_none",
              "recv_bind_response", "recv_search_entry", "recv_search_reference", "recv_search_done",
              "recv_extended_response", "recv_notice", "recv_extended_request", "recv_unbind",
              "recv2_extended_response", "recv2_search_done", "search_unencodable"]
SERVER_OPS = ["bind_response", "extended_response", "notice", "search_entry", "search_reference", "search_done",
              "search_done_unencodable", "unbind", "drain", "drain_none",
              "recv_bind_request", "recv_search_request", "recv_extended_request", "recv_unbind", "recv_extended_response"]
# the same operations carrying a paged-results control with a symbolic non-empty cookie ("@p"):
# controls are an argument of every call and a field of every message, and must not influence the
# session rules.  Used in the inductive step and in BMC of depth <= 2.
CLIENT_OPS_CTL = ["search@p", "extended@p", "recv_search_done@p", "recv_search_entry@p", "recv_bind_response@p", "recv_extended_response@p"]
SERVER_OPS_CTL = ["search_done@p", "search_entry@p", "extended_response@p", "bind_response@p", "recv_search_request@p", "recv_bind_request@p"]
# deliveries in two pieces ("@s", cut position symbolic): same rules as a whole delivery
CLIENT_OPS_CTL += ["recv_notice@s", "recv_bind_response@s", "recv_search_done@s", "recv_extended_response@s"]
SERVER_OPS_CTL += ["recv_unbind@s", "recv_bind_request@s", "recv_search_request@s", "recv_extended_request@s"]


def po(ctx):
    return ctx.L.messages.PackingOptions()


# ---------------------------------------------------------------------- reading a session
def members(s):
    return list(s)


def pending(ctx, sess):
    """the octets waiting to be sent, observed through the public API only: drain a deep copy"""
    import copy

    return ctx.tobytes(copy.deepcopy(sess).data_to_send())


_ROLES = {}


def roles(ctx, side):
    """names of the private bookkeeping attributes, found by what they DO on a scratch session
    (a rename must not break the harness): the two sets that receive a search's id / only one of
    which receives another request's id, and the client's int that goes 1 -> 2 with a request"""
    key = (id(ctx.L), side)
    if key in _ROLES:
        return _ROLES[key]
    S, M, F = ctx.L.session, ctx.L.messages, ctx.L.filter
    p = po(ctx)
    a = S.LDAPClient() if side == "client" else S.LDAPServer()
    before = {k: v for k, v in vars(a).items() if isinstance(v, int) and not isinstance(v, bool)}
    if side == "client":
        i1 = a.search_request("dc=x")
        i2 = a.extended_request("1.2")
    else:
        i1, i2 = 3, 5
        a.receive(M.SearchRequest(i1, [], "", M.SearchScope.BASE, M.DereferencingPolicy.NEVER, 0, 0, False, F.FilterPresent("o"), []).pack(p))
        a.receive(M.ExtendedRequest(i2, [], "1.2", None).pack(p))
    sets = {k: v for k, v in vars(a).items() if hasattr(v, "__contains__") and hasattr(v, "__iter__") and not isinstance(v, (str, bytes, bytearray, dict, list, tuple))}
    out = [k for k, v in sets.items() if sorted(v) == sorted([i1, i2])]
    srch = [k for k, v in sets.items() if sorted(v) == [i1]]
    ctr = [k for k, v in vars(a).items() if k in before and before[k] == 1 and v == 3] if side == "client" else [None]
    if len(out) != 1 or len(srch) != 1 or len(ctr) != 1:
        raise RuntimeError(f"harness: cannot identify the session's bookkeeping attributes (outstanding={out}, searches={srch}, counter={ctr}); the representation the inductive step injects is not there")
    _ROLES[key] = (out[0], srch[0], ctr[0])
    return _ROLES[key]


_RESIDUE = {}


def residue_attr(ctx, side):
    """name of the attribute that holds the not-yet-parsed tail of the input (None when it cannot be
    identified: the residue is then not compared, only what the sessions do)"""
    key = (id(ctx.L), side)
    if key not in _RESIDUE:
        S = ctx.L.session
        a = S.LDAPClient() if side == "client" else S.LDAPServer()
        probe = bytes([0x30, 0x05, 0x02])
        a.receive(probe)
        found = []
        for k, v in vars(a).items():
            if isinstance(v, (str, int, set, dict)) or v is None:
                continue
            try:
                if bytes(ctx.tobytes(v)) == probe:
                    found.append(k)
            except Exception:  # noqa: BLE001
                continue
        _RESIDUE[key] = found[0] if len(found) == 1 else None
    return _RESIDUE[key]


def read(ctx, sess, side):
    o, sr, c = roles(ctx, side)
    st = {
        "state": sess.state.name,
        "O": members(getattr(sess, o)),
        "S": members(getattr(sess, sr)),
        "out": pending(ctx, sess),
    }
    if side == "client":
        st["c"] = getattr(sess, c)
    return st


def in_set(ctx, x, xs):
    if not xs:
        return False
    return ctx.any(*[x == y for y in xs])


def set_eq(ctx, a, b):
    return ctx.all(*([in_set(ctx, x, b) for x in a] + [in_set(ctx, y, a) for y in b])) if (a or b) else True


# ---------------------------------------------------------------------- pre-states
def pre_shapes(side):
    """abstract pre-state shapes: (state, n outstanding, which of them are searches)"""
    out = [("BEFORE_OPEN", 0, ())]
    for n in (0, 1, 2):
        for searches in ([()] if n == 0 else [(), (0,)] if n == 1 else [(), (0,), (0, 1)]):
            out.append(("OPENED", n, searches))
    out += [("BINDING", 0, ()), ("BINDING", 1, ()), ("CLOSED", 0, ())]
    if side == "server":
        # a search answered with a non-search final response stays in the search registry
        # (reachable through the public API; see reach_server): "stale" ids, negative markers
        out += [("OPENED", 0, (-1,)), ("OPENED", 1, (-1,)), ("OPENED", 1, (0, -1))]
    return out


def make_pre(ctx, side, pshape, tag="pre"):
    """-> session in the abstract pre-state (state, |O|, searches) with symbolic ids"""
    state, n, searches = pshape
    S = ctx.L.session
    stale_n = sum(1 for x in searches if x < 0)
    searches = tuple(x for x in searches if x >= 0)
    ids = [ctx.int(f"{tag}.id{i}", 1 if side == "client" else 0, IDMAX) for i in range(n)]
    stale = [ctx.int(f"{tag}.stale{i}", 0, IDMAX) for i in range(stale_n)]
    for i in range(n):
        for j in range(i):
            ctx.assume(ids[i] != ids[j])
    for x in stale:
        for y in ids:
            ctx.assume(x != y)
    if side == "client":
        lo = 1 if state in ("BEFORE_OPEN", "CLOSED") else 2
        c = ctx.int(f"{tag}.counter", lo, IDMAX + 1)
        if state == "BEFORE_OPEN":
            ctx.assume(c == 1)
        for x in ids:
            ctx.assume(x < c)
        if state == "BINDING" and n == 1:
            ctx.assume(ids[0] == c - 1)
    else:
        c = None
    if ctx.mode == "sym":
        from sx import values as V

        sess = S.LDAPClient() if side == "client" else S.LDAPServer()
        o_name, s_name, c_name = roles(ctx, side)
        sess.state = getattr(S.SessionState, state)
        setattr(sess, o_name, V.SSet(ids))
        setattr(sess, s_name, V.SSet([ids[i] for i in searches] + stale))
        if side == "client":
            setattr(sess, c_name, c)
        return sess
    if side == "client":
        sess = reach_client(ctx, state, ids, [ids[i] for i in searches], c)
    else:
        sess = reach_server(ctx, state, ids, [ids[i] for i in searches], stale)
    return sess


def reach_client(ctx, state, ids, searches, counter):
    """public-API history that brings a fresh client to (state, O=ids, S=searches, counter)"""
    S, M = ctx.L.session, ctx.L.messages
    c = S.LDAPClient()
    ok = M.LDAPResult(M.LDAPResultCode.SUCCESS, "", "")
    bind_pending = state == "BINDING" and len(ids) == 1
    last = counter - 1
    for i in range(1, counter):
        if state == "BINDING" and i == last:
            # the bind must be the most recent request and needs an empty outstanding set
            got = c.bind_simple("cn=a", "b")
            if not bind_pending:
                c.receive(M.BindResponse(i, [], M.LDAPResult(M.LDAPResultCode.SASL_BIND_IN_PROGRESS, "", ""), b"x").pack(po(ctx)))
        elif i in searches:
            got = c.search_request("dc=x")
        else:
            got = c.extended_request("1.2")
            if i not in ids:
                c.receive(M.ExtendedResponse(i, [], ok, None, None).pack(po(ctx)))
        assert got == i
    if state == "CLOSED":
        c.unbind()
    c.data_to_send()
    assert c.state.name == state, (c.state.name, state)
    return c


def reach_server(ctx, state, ids, searches, stale=()):
    S, M, F = ctx.L.session, ctx.L.messages, ctx.L.filter
    A = ctx.L.auth
    s = S.LDAPServer()
    for x in stale:
        s.receive(M.SearchRequest(x, [], "", M.SearchScope.BASE, M.DereferencingPolicy.NEVER, 0, 0, False, F.FilterPresent("o"), []).pack(po(ctx)))
        s.extended_response(x)
    if state == "BINDING":
        bid = ids[0] if ids else 7
        s.receive(M.BindRequest(bid, [], 3, "", A.SaslCredential("X", b"t")).pack(po(ctx)))
        if not ids:
            s.bind_response(bid, b"c", M.LDAPResultCode.SASL_BIND_IN_PROGRESS)
    else:
        for i in ids:
            if i in searches:
                m = M.SearchRequest(i, [], "", M.SearchScope.BASE, M.DereferencingPolicy.NEVER, 0, 0, False, F.FilterPresent("o"), [])
            else:
                m = M.ExtendedRequest(i, [], "1.2", None)
            s.receive(m.pack(po(ctx)))
        if state == "OPENED" and not ids:
            s.receive(M.ExtendedRequest(9, [], "1.2", None).pack(po(ctx)))
            s.extended_response(9)
        if state == "CLOSED":
            try:
                s.receive(M.UnbindRequest(0, []).pack(po(ctx)))
            except S.ProtocolError:
                pass
    s.data_to_send()
    assert s.state.name == state, (s.state.name, state)
    return s


def invariant_parts(ctx, st, side):
    """representation invariant, split by the property each part belongs to.  Every session check
    ASSUMES the whole invariant before a call and PROVES its own part after it (assume-guarantee):
    the invariant is inductive when C08, C09 and C10 all pass, and a change that breaks only the id
    bookkeeping is reported by C09 - not by C08 as well."""
    parts = {"C08": [], "C09": [], "C10": [], "C12": []}
    O, S = st["O"], st["S"]
    owner_ids = "C09" if side == "client" else "C10"
    for i in range(len(O)):
        for j in range(i):
            parts[owner_ids].append(O[i] != O[j])
    if st["state"] != "CLOSED" and side == "client":
        # (a server may answer a search with a non-search final response; the property does not
        # specify mismatched kinds, so the search registry is not required to follow there)
        for x in S:
            # a search in progress is an outstanding operation: C09's bookkeeping, and also what
            # C08's "no bind while operations are outstanding" is evaluated against
            parts["C09"].append(in_set(ctx, x, O))
            parts["C08"].append(in_set(ctx, x, O))
    if st["state"] == "BEFORE_OPEN":
        parts["C08"].append(len(O) == 0)
    if st["state"] == "CLOSED":
        parts["C08"].append(len(O) == 0 or side == "server")
    if side == "client":
        c = st["c"]
        parts["C09"].append(c >= 1)
        for x in O:
            parts["C09"].append(ctx.all(x >= 1, x < c))
        if st["state"] == "BEFORE_OPEN":
            parts["C08"].append(c == 1)
        if st["state"] == "BINDING":
            parts["C08"].append(len(O) <= 1)
            for x in O:
                parts["C08"].append(x == c - 1)
    return parts


def invariant(ctx, st, side, owner=None):
    parts = invariant_parts(ctx, st, side)
    conds = [c for k, v in parts.items() if owner is None or k == owner for c in v]
    return ctx.all(*conds) if conds else True


# ---------------------------------------------------------------------- operations
def result(ctx, code):
    M = ctx.L.messages
    return M.LDAPResult(M.LDAPResultCode(code), "", "")


def _opname(ctx, tag):
    """an extended-operation name: any 3 characters out of digits and dots (so also fragments of
    the notice-of-disconnection OID); only the exact notice OID has a meaning to the session"""
    return ctx.str(f"{tag}.name", 3, 0x2E, 0x39) if tag else "1.2"


def message_for(ctx, op, mid, code, ctl=None, tag=None):
    """the message a peer would send for a recv_* op"""
    M, F, A = ctx.L.messages, ctx.L.filter, ctx.L.auth
    k = op[5:]
    ctl = list(ctl or [])
    if k == "bind_response":
        return M.BindResponse(mid, ctl, result(ctx, code), None)
    if k == "search_entry":
        return M.SearchResultEntry(mid, ctl, "cn=a", [])
    if k == "search_reference":
        return M.SearchResultReference(mid, ctl, ["ldap://x"])
    if k == "search_done":
        return M.SearchResultDone(mid, ctl, result(ctx, code))
    if k == "extended_response":
        return M.ExtendedResponse(mid, ctl, result(ctx, code), _opname(ctx, tag), None)
    if k == "notice":
        return M.ExtendedResponse(mid, ctl, result(ctx, code), NOTICE, None)
    if k == "extended_request":
        return M.ExtendedRequest(mid, ctl, "1.2", None)
    if k == "unbind":
        return M.UnbindRequest(mid, ctl)
    if k == "bind_request":
        return M.BindRequest(mid, ctl, 3, "", A.SimpleCredential("p"))
    if k == "search_request":
        return M.SearchRequest(mid, ctl, "", M.SearchScope.BASE, M.DereferencingPolicy.NEVER, 0, 0, False, F.FilterPresent("o"), [])
    raise ValueError(op)


FINAL_RESPONSES = ("bind_response", "search_done", "extended_response", "notice")


def do_op(ctx, sess, side, op, tag):
    """perform one public call with symbolic arguments.
    -> dict(kind, ret|exc, args...)"""
    M = ctx.L.messages
    op, _, variant = op.partition("@")
    info = {"op": op, "variant": variant}
    ctl = None
    if variant == "p":
        ctl = [ctx.L.controls.PagedResultControl(False, ctx.int(f"{tag}.psize", 0, 100), ctx.bytes(f"{tag}.cookie", 1))]
    try:
        if op == "drain":
            a = ctx.int(f"{tag}.amount", -4, 40)
            info["amount"] = a
            info["ret"] = sess.data_to_send(a)
        elif op == "drain_none":
            info["amount"] = None
            info["ret"] = sess.data_to_send()
        elif op.startswith("drainK"):
            # a drain of (threshold + 0..2) octets: together with a message of more than ten
            # thousand octets pending this walks the offsets a buffer implementation may treat
            # specially (powers of two, compaction thresholds)
            a = int(op[6:]) + ctx.int(f"{tag}.delta", 0, 2)
            info["amount"] = a
            info["op"] = "drain"
            info["ret"] = sess.data_to_send(a)
        elif op == "unbind":
            info["ret"] = sess.unbind()
        elif op.startswith("recv2_"):
            # the same final response twice in ONE delivery (a duplicate for an id that the first copy completes)
            mid = ctx.int(f"{tag}.mid", 0, IDMAX + 2)
            code = ctx.int(f"{tag}.code", 0, 80)
            info["mid"], info["code"] = mid, code
            one = message_for(ctx, "recv_" + op[6:], mid, code).pack(po(ctx))
            info["ret"] = sess.receive(one + one)
        elif op.startswith("recv_"):
            mid = ctx.int(f"{tag}.mid", 0, IDMAX + 2)
            code = ctx.int(f"{tag}.code", 0, 80)
            info["mid"], info["code"] = mid, code
            msg = message_for(ctx, op, mid, code, ctl, tag)
            info["msg"] = msg
            data = msg.pack(po(ctx))
            if variant == "s":
                # the same message arriving in two pieces (cut position: solver variable); the
                # session rules are stated per message, not per delivery
                cut = ctx.int(f"{tag}.cut", 1, len(data) - 1)
                first = sess.receive(data[:cut])
                if len(first):
                    ctx.fail("C02:incomplete-message-returned-something", op)
                info["ret"] = sess.receive(data[cut:])
            else:
                info["ret"] = sess.receive(data)
        elif side == "client":
            t = ctx.str(f"{tag}.text", 1, 0x61, 0x7A)
            if op == "bind_simple":
                info["ret"] = sess.bind_simple(t, "pw")
            elif op == "bind_sasl":
                info["ret"] = sess.bind_sasl("GSSAPI", t, ctx.bytes(f"{tag}.cred", 1))
            elif op == "search":
                info["ret"] = sess.search_request(t, controls=ctl)
            elif op == "search_unencodable":
                # the base DN holds a lone surrogate: encoding fails inside pack(), after validation
                info["ret"] = sess.search_request("dc=\udc00x", attributes=["cn"])
            elif op == "extended":
                info["ret"] = sess.extended_request("1.2", ctx.bytes(f"{tag}.val", 1), controls=ctl)
            elif op == "extended_big":
                info["op"] = "extended"
                info["ret"] = sess.extended_request("1.2", ctx.bytes(f"{tag}.val", 1) + bytes(range(256)) * 40, controls=ctl)
            else:
                raise ValueError(op)
        else:
            mid = ctx.int(f"{tag}.mid", 0, IDMAX + 2)
            code = ctx.int(f"{tag}.code", 0, 80)
            info["mid"], info["code"] = mid, code
            rc = M.LDAPResultCode(code)
            if op == "bind_response":
                info["ret"] = sess.bind_response(mid, None, rc, controls=ctl)
            elif op == "extended_response":
                info["ret"] = sess.extended_response(mid, _opname(ctx, tag), None, rc, controls=ctl)
            elif op == "notice":
                info["ret"] = sess.extended_response(mid, NOTICE, None, rc)
            elif op == "search_entry":
                # (an attribute value of one arbitrary octet: not necessarily text)
                info["ret"] = sess.search_result_entry(mid, "cn=a", [M.PartialAttribute("a", [ctx.bytes(f"{tag}.av", 1)])], controls=ctl)
            elif op == "search_reference":
                info["ret"] = sess.search_result_reference(mid, ["ldap://x"])
            elif op == "search_done":
                info["ret"] = sess.search_result_done(mid, rc, controls=ctl)
            elif op == "search_done_unencodable":
                # the diagnostic text holds a lone surrogate: encoding fails inside pack(), after validation
                info["ret"] = sess.search_result_done(mid, rc, diagnostics_message="x\udc80")
            else:
                raise ValueError(op)
    except Exception as e:  # noqa: BLE001
        info["exc"] = e
        info["exc_name"] = type(e).__name__
        info["exc_site"] = exc_site(e)
    return info


def is_ldap_error(ctx, e):
    return isinstance(e, ctx.L.session.LDAPError)


# ---------------------------------------------------------------------- the documented behaviour (ghost)
def check_step(ctx, side, pre, info, post, props, tag=""):
    """all post-conditions of one call; `props` selects which properties' clauses are evaluated"""
    op = info["op"]
    exc = info.get("exc")
    rejected = exc is not None
    ctx.observe(f"{tag}outcome", (op, info.get("exc_name", "ok"), post["state"]))

    def req(prop, cond, label):
        if prop in props:
            ctx.require(cond, f"{prop}:{label}")

    def fail(prop, label, detail=None):
        if prop in props:
            ctx.fail(f"{prop}:{label}", detail)

    appended = None  # octets appended to the outgoing stream by this call
    n0 = len(pre["out"])
    if op in ("drain", "drain_none"):
        if rejected:
            fail("C12", "drain-raises", f"{info['exc_name']}@{info['exc_site']}")
        got = info["ret"]
        req("C12", ctx.eq(ctx.tobytes(got) + post["out"], pre["out"]), "drain-splits-the-buffer-exactly")
        if info["amount"] is None:
            req("C12", len(post["out"]) == 0, "drain-all-leaves-nothing")
        req("C12", post["state"] == pre["state"], "drain-changes-state")
        req("C12", ctx.all(set_eq(ctx, pre["O"], post["O"]), set_eq(ctx, pre["S"], post["S"])), "drain-changes-bookkeeping")
        if side == "client":
            req("C12", post["c"] == pre["c"], "drain-changes-counter")
        return
    # every other call may only append to the outgoing stream
    if len(post["out"]) < n0:
        fail("C12", "outgoing-stream-shrank")
    req("C12", ctx.eq(post["out"][:n0], pre["out"]), "outgoing-stream-prefix-altered")
    appended = post["out"][n0:]
    if op.startswith("recv"):
        # the stream is made of the successful sends only: a delivery (accepted or not) adds nothing
        req("C12", len(appended) == 0, "receive-contributed-bytes-to-the-stream")
    if rejected:
        # ---- C10: refusal has no wire effect and uses the library's own error type
        if not is_ldap_error(ctx, exc) and op not in ("search_unencodable", "search_done_unencodable"):
            fail("C10", "call-fails-with-foreign-exception", f"{info['exc_name']}@{info['exc_site']}")
        if not op.startswith("recv"):
            req("C10", len(appended) == 0, "refused-call-left-bytes-queued:" + op)
            req("C12", len(appended) == 0, "failed-send-contributes-bytes-to-the-stream:" + op)
            if pre["state"] != "CLOSED" and is_ldap_error(ctx, exc):
                # (a call that fails on an invalid argument - text that cannot be encoded - is a
                # caller error, not a refusal by the state machine; only C09/C12's clauses apply)
                req("C08", post["state"] == pre["state"], "refused-call-changed-state:" + op.replace("_unencodable", ""))
    # ---- C08: CLOSED is final
    if pre["state"] == "CLOSED":
        req("C08", rejected, "closed-session-accepted:" + op)
        req("C08", post["state"] == "CLOSED", "closed-session-left-closed:" + op)
        req("C08", len(appended) == 0, "closed-session-produced-bytes:" + op)
        if side == "client" and rejected and op in ("bind_simple", "bind_sasl", "search", "extended"):
            req("C09", len(appended) == 0, "refused-request-emitted-bytes-carrying-an-id-that-was-not-handed-out")
        if op.startswith("recv") and rejected:
            req("C08", info["exc_name"] == "ProtocolError", "closed-receive-error-type")
        return
    if side == "client":
        _client(ctx, pre, info, post, appended, rejected, req, fail, props)
    else:
        _server(ctx, pre, info, post, appended, rejected, req, fail, props)


def _decode_appended(ctx, appended, label):
    ref = ref_ber.Ref(ctx, label)
    ref.lenient_unbind = True
    try:
        return ref.message(appended)
    except (ref_ber.RefError, ref_ber.Incomplete) as e:
        ctx.fail(label + ":emitted-bytes-not-a-message", str(e))


def _client(ctx, pre, info, post, appended, rejected, req, fail, props):
    op = info["op"]
    O, S, c = pre["O"], pre["S"], pre["c"]
    M = ctx.L.messages
    if op == "search_unencodable":
        # whatever the outcome type, a send that did not succeed contributes nothing and allocates nothing
        req("C12", rejected and len(appended) == 0, "failed-send-contributes-bytes-to-the-stream:" + op)
        req("C09", ctx.all(post["c"] == c, set_eq(ctx, post["O"], O), set_eq(ctx, post["S"], S)), "failed-send-changed-the-id-bookkeeping")
        return
    if op in ("bind_simple", "bind_sasl", "search", "extended"):
        is_bind = op.startswith("bind")
        must_refuse = (len(O) > 0) if is_bind else (pre["state"] == "BINDING")
        if must_refuse:
            req("C08", rejected, ("bind-started-with-operations-outstanding" if is_bind else "non-bind-request-sent-while-binding"))
            if rejected:
                # no id was handed out, so no bytes carrying one may have been emitted
                req("C09", len(appended) == 0, "refused-request-emitted-bytes-carrying-an-id-that-was-not-handed-out")
            return
        if rejected:
            fail("C08", "valid-request-refused:" + op, f"{info['exc_name']}@{info['exc_site']}")
            return
        ret = info["ret"]
        req("C08", post["state"] == ("BINDING" if is_bind else "OPENED"), "state-after-request:" + op)
        req("C09", ret == c, "returned-id-is-not-the-next-counter")
        req("C09", ret >= 1, "returned-id-not-positive")
        req("C09", post["c"] == c + 1, "counter-not-incremented")
        req("C09", ctx.all(in_set(ctx, ret, post["O"]), len(post["O"]) == len(O) + 1), "request-not-recorded-outstanding")
        exp_S = S + [ret] if op == "search" else S
        req("C09", set_eq(ctx, post["S"], exp_S), "search-bookkeeping-after-request")
        kind = {"bind_simple": "bindRequest", "bind_sasl": "bindRequest", "search": "searchRequest", "extended": "extendedReq"}[op]
        if "C09" in props:
            m = _decode_appended(ctx, appended, "C09")
            req("C09", m["id"] == ret, "emitted-message-id-differs-from-returned-id")
            req("C09", m["op"][0] == kind, "emitted-message-kind")
        if "C12" in props:
            # the stream is the concatenation of the successful sends: this one contributes exactly
            # one complete message (its own) at the end of what is pending
            if not len(appended):
                fail("C12", "successful-send-contributed-nothing-to-the-stream:" + op)
            else:
                m = _decode_appended(ctx, appended, "C12")
                req("C12", ctx.all(m["id"] == ret, m["op"][0] == kind), "successful-send-contributed-something-else:" + op)
        return
    if op == "unbind":
        if rejected:
            fail("C08", "unbind-refused", f"{info['exc_name']}@{info['exc_site']}")
            return
        req("C08", post["state"] == "CLOSED", "unbind-does-not-close")
        req("C08", len(post["O"]) == 0, "unbind-leaves-operations")
        if "C08" in props:
            if len(appended):
                m = _decode_appended(ctx, appended, "C08")
                req("C08", m["op"][0] == "unbindRequest", "unbind-emits-something-else")
            else:
                fail("C08", "unbind-emits-nothing")
        if "C12" in props and not len(appended):
            fail("C12", "successful-send-contributed-nothing-to-the-stream:unbind")
        return
    # ---- receive
    if op.startswith("recv2_"):
        req("C10", len(appended) == 0, "receive-queued-bytes")
        if op == "recv2_extended_response" and ctx.is_true(in_set(ctx, info["mid"], S)):
            return  # a non-search response carrying a search's id: not specified
        req("C09", rejected, "duplicate-response-in-one-delivery-accepted")
        req("C08", post["state"] == "CLOSED", "not-closed-after-protocol-error")
        return
    k = op[5:]
    x = info["mid"]
    req("C10", len(appended) == 0, "receive-queued-bytes")
    if k in ("extended_request", "unbind"):
        req("C09", rejected, "request-type-message-accepted-by-client")
        req("C08", post["state"] == "CLOSED", "not-closed-after-protocol-error")
        return
    if k == "notice":
        req("C08", rejected, "notice-of-disconnection-accepted")
        req("C08", post["state"] == "CLOSED", "not-closed-after-notice")
        return
    in_O = in_set(ctx, x, O)
    in_S = in_set(ctx, x, S)
    if ctx.is_true(in_O):
        if ctx.is_true(in_S) and k not in ("search_entry", "search_reference", "search_done"):
            # a non-search response carrying a search's id: whether it is accepted is not
            # specified, but a search is only completed by its done message
            if not rejected:
                req("C09", ctx.all(set_eq(ctx, post["O"], O), set_eq(ctx, post["S"], S)), "search-retired-by-a-message-other-than-done")
            return
        req("C09", not rejected, "response-for-operation-in-progress-rejected")
        if rejected:
            return
        ret = info["ret"]
        req("C09", len(ret) == 1, "accepted-response-not-returned")
        stays = ctx.is_true(in_S) and k in ("search_entry", "search_reference")
        if stays:
            req("C09", ctx.all(set_eq(ctx, post["O"], O), set_eq(ctx, post["S"], S)), "search-retired-before-done")
        else:
            req("C09", ctx.neg(in_set(ctx, x, post["O"])), "completed-operation-still-outstanding")
            req("C09", len(post["O"]) == len(O) - 1, "unrelated-operation-retired")
            req("C09", ctx.neg(in_set(ctx, x, post["S"])), "completed-search-still-registered")
        if k == "bind_response":
            if ctx.is_true(info["code"] != 14):
                req("C08", post["state"] == "OPENED", "bind-response-did-not-open")
            else:
                req("C08", post["state"] == pre["state"], "sasl-in-progress-changed-state")
        else:
            req("C08", post["state"] == pre["state"], "response-changed-state")
        req("C09", post["c"] == c, "receive-changed-counter")
    else:
        req("C09", rejected, "response-for-unknown-or-completed-id-accepted")
        req("C08", post["state"] == "CLOSED", "not-closed-after-protocol-error")
        req("C09", len(post["O"]) == 0, "operations-survive-protocol-error")


def _server(ctx, pre, info, post, appended, rejected, req, fail, props):
    op = info["op"]
    O, S = pre["O"], pre["S"]
    if op == "unbind":
        if rejected:
            fail("C08", "unbind-refused", f"{info['exc_name']}@{info['exc_site']}")
            return
        req("C08", post["state"] == "CLOSED", "unbind-does-not-close")
        return
    if op.startswith("recv_"):
        k = op[5:]
        x = info["mid"]
        req("C10", len(appended) == 0, "receive-queued-bytes")
        if k == "extended_response":
            req("C08", rejected, "response-type-message-accepted-by-server")
            req("C08", post["state"] == "CLOSED", "not-closed-after-protocol-error")
            return
        if k == "unbind":
            req("C08", rejected, "unbind-request-not-signalled")
            req("C08", post["state"] == "CLOSED", "not-closed-after-unbind")
            return
        if k == "bind_request":
            if len(O) > 0:
                req("C08", rejected, "bind-accepted-with-operations-outstanding")
                req("C08", post["state"] == "CLOSED", "not-closed-after-protocol-error")
                return
            req("C08", not rejected, "valid-bind-request-rejected")
            if rejected:
                return
            req("C08", post["state"] == "BINDING", "bind-request-did-not-enter-binding")
        else:
            req("C08", not rejected, "valid-request-rejected")
            if rejected:
                return
            req("C08", post["state"] == ("OPENED" if pre["state"] == "BEFORE_OPEN" else pre["state"]), "state-after-request")
        req("C10", in_set(ctx, x, post["O"]), "received-request-not-outstanding")
        if k == "search_request":
            req("C10", in_set(ctx, x, post["S"]), "received-search-not-registered")
        return
    # ---- responses sent by the server
    x = info["mid"]
    if op == "search_done_unencodable":
        # a send that fails (refused, or inside the encoder) contributes nothing, retires nothing and
        # leaves the state alone - an operation retired here would let a bind start while it is
        # still outstanding
        req("C12", rejected and len(appended) == 0, "failed-send-contributes-bytes-to-the-stream:" + op)
        req("C10", ctx.all(set_eq(ctx, post["O"], O), set_eq(ctx, post["S"], S)), "failed-send-changed-the-bookkeeping")
        req("C08", ctx.all(set_eq(ctx, post["O"], O), post["state"] == pre["state"]), "failed-send-retired-an-operation-or-changed-state")
        return
    is_notice = op == "notice"
    in_O = in_set(ctx, x, O)
    allowed_in_binding = op == "bind_response" or is_notice
    if pre["state"] == "BINDING" and not allowed_in_binding:
        req("C08", rejected, "non-bind-response-sent-while-binding")
        return
    if not ctx.is_true(in_O):
        req("C10", rejected, "response-emitted-for-a-request-that-is-not-outstanding")
        return
    is_search_op = op in ("search_entry", "search_reference", "search_done")
    if rejected:
        if is_search_op != bool(ctx.is_true(in_set(ctx, x, S))):
            return  # a response whose kind does not match the request: the property allows refusing it
        fail("C10", "response-to-outstanding-request-refused", f"{info['exc_name']}@{info['exc_site']}")
        return
    if "C10" in props:
        m = _decode_appended(ctx, appended, "C10")
        req("C10", m["id"] == x, "emitted-response-id")
    if "C12" in props:
        if not len(appended):
            fail("C12", "successful-send-contributed-nothing-to-the-stream:" + op)
        else:
            m = _decode_appended(ctx, appended, "C12")
            req("C12", m["id"] == x, "successful-send-contributed-something-else:" + op)
    final = op in ("bind_response", "extended_response", "notice", "search_done")
    if final:
        req("C10", ctx.neg(in_set(ctx, x, post["O"])), "final-response-did-not-retire-the-request")
        req("C10", len(post["O"]) == len(O) - 1, "unrelated-request-retired")
    else:
        req("C10", set_eq(ctx, post["O"], O), "search-entry-retired-the-request")
    if op == "bind_response":
        if ctx.is_true(info["code"] != 14):
            req("C08", post["state"] == "OPENED", "bind-response-did-not-open")
        else:
            req("C08", post["state"] == pre["state"], "sasl-in-progress-changed-state")
    elif is_notice:
        req("C08", post["state"] == "CLOSED", "notice-did-not-close")
    else:
        req("C08", post["state"] == pre["state"], "response-changed-state")


# ---------------------------------------------------------------------- units shared by C08/C09/C10/C12
def step_units(tier, ops_filter=None):
    us = []
    for side, ops in (("client", CLIENT_OPS + CLIENT_OPS_CTL), ("server", SERVER_OPS + SERVER_OPS_CTL)):
        for ps in pre_shapes(side):
            for op in ops:
                if ops_filter and not ops_filter(side, op):
                    continue
                us.append({"name": f"step_{side}_{ps[0]}_{ps[1]}{''.join('s' if x < 0 else str(x) for x in ps[2])}_{op}", "shape": {"kind": "step", "side": side, "pre": [ps[0], ps[1], list(ps[2])], "op": op}})
    return us


def bmc_units(tier, depth, ops_filter=None):
    import itertools

    us = []
    for side, ops in (("client", CLIENT_OPS + (CLIENT_OPS_CTL if depth <= 2 else [])), ("server", SERVER_OPS + (SERVER_OPS_CTL if depth <= 2 else []))):
        ops = [o for o in ops if not ops_filter or ops_filter(side, o)]
        for seq in itertools.product(ops, repeat=depth):
            us.append({"name": f"bmc_{side}_" + "+".join(seq), "shape": {"kind": "bmc", "side": side, "ops": list(seq)}})
    return us


def run_step(ctx, shape, props):
    side = shape["side"]
    ps = (shape["pre"][0], shape["pre"][1], tuple(shape["pre"][2]))
    sess = make_pre(ctx, side, ps)
    pre = read(ctx, sess, side)
    # (symbolic run: true by construction; replay: a tree on which the public-API history does not
    # lead to this abstract state cannot confirm the counterexample - it is then not reported)
    ctx.assume(invariant(ctx, pre, side))
    info = do_op(ctx, sess, side, shape["op"], "op")
    post = read(ctx, sess, side)
    check_step(ctx, side, pre, info, post, props)
    ctx.require(invariant(ctx, post, side, props[0]), f"{props[0]}:invariant-not-preserved")


def run_bmc(ctx, shape, props):
    side = shape["side"]
    S = ctx.L.session
    sess = S.LDAPClient() if side == "client" else S.LDAPServer()
    st = read(ctx, sess, side)
    ctx.require(invariant(ctx, st, side, props[0]), f"{props[0]}:initial-state-violates-invariant")
    for i, op in enumerate(shape["ops"]):
        pre = read(ctx, sess, side)
        info = do_op(ctx, sess, side, op, f"s{i}")
        post = read(ctx, sess, side)
        check_step(ctx, side, pre, info, post, props, tag=f"{i}:")
        ctx.require(invariant(ctx, post, side, props[0]), f"{props[0]}:invariant-not-preserved")
