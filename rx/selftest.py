"""Self-test for rx.py.  Run:  cd /verif && .venv/bin/python -m rx.selftest   (or run the file)."""
import os
import re
import sys
import time

sys.path.insert(0, os.path.dirname(os.path.dirname(os.path.abspath(__file__))))
from rx import rx  # noqa: E402

EDA = [r"^(a+)+$", r"(a|a)*b",
       r"^(?:(?:[0-9])|(?:[1-9][0-9]*))(?:\.(?:(?:[0-9])|(?:[1-9][0-9]*)))*$"]
NO_EDA = [r"^[a-z]+$", r"^(a|b)*c$", r"^a*b*c*$",
          r"^(?:[0-9]|[1-9][0-9]+)(?:\.(?:[0-9]|[1-9][0-9]+))*$",
          r"'(?:\\27|\\5[Cc]|[^'\\])+'"]


def crosscheck(pattern, flags=0):
    """Datalog answer set == plain-Python product BFS answer set, for every seed of every SCC."""
    nfa = rx.build_nfa(pattern, flags)
    n = 0
    for comp in rx._sccs(nfa):
        if len(comp) == 1 and comp[0] not in rx._succ(nfa, comp[0]):
            continue
        hits = set(rx._datalog_scc(nfa, comp, 120000)[0])
        for p in comp:
            outs = nfa.eps[p]
            for r1 in outs:
                for r2 in outs:
                    if r1 != r2:
                        n += 1
                        py = rx._pump_word(nfa, comp, p, r1, r2) is not None
                        assert py == ((p, r1, r2) in hits), (pattern, p, r1, r2, py)
    return n


def row(pat, r, secs, extra=""):
    p = r["pattern"].replace("\\n", " ")
    print("%-44s %6d %6d %4d  %-8s %7.2f  %s" % (p[:44], r["states"], r["fork_states"],
                                                r["datalog_queries"], r["verdict"], secs, extra))


def main():
    t0 = time.perf_counter()
    print("%-44s %6s %6s %4s  %-8s %7s" % ("pattern", "states", "forks", "qry", "verdict", "secs"))
    for pat, want in [(p, "eda") for p in EDA] + [(p, "no-eda") for p in NO_EDA]:
        t = time.perf_counter()
        r = rx.analyze(pat)
        row(pat, r, time.perf_counter() - t, "witness=%r" % (r["witness"],) if r["witness"] else "")
        assert r["verdict"] == want, (pat, r)
        if want == "eda":   # validated: a witness and measurements must be present
            assert r["witness"] and r["validation"] and r["validation"][-1]["accepted"], r
            w = r["witness"]
            assert re.compile(pat).match(w["prefix"] + w["pump"] * 3 + w["suffix"]) is None
        crosscheck(pat)
    # the two alternatives of the unfixed number rule are two distinct runs on "5"
    nfa = rx.build_nfa(r"(?:[0-9])|(?:[1-9][0-9]*)")
    assert len(nfa.eps[nfa.start]) == 2
    print("fixed expectations: ok\n")

    pats = rx.capture_library_patterns()
    assert re.compile.__module__ == "re" and re.sub.__module__ == "re", "re not restored"
    if rx.CAPTURE_ERRORS:
        print("capture problems:", rx.CAPTURE_ERRORS)
    print("captured %d distinct (pattern, flags) from the library" % len(pats))
    flagged = []
    for rec in pats:
        t = time.perf_counter()
        r = rx.analyze(rec["pattern"], rec["flags"], exhaustive=True)
        seeds = crosscheck(rec["pattern"], rec["flags"]) if r["verdict"] != "unknown" else 0
        row(rec["pattern"], r, time.perf_counter() - t,
            "%s %s flags=%d seeds=%d" % (rec["where"], rec["name"] or "", rec["flags"], seeds))
        if r["verdict"] == "eda":
            flagged.append((rec, r))
    print()
    for rec, r in flagged:
        print("EDA  %s %s  %s" % (rec["where"], rec["name"] or "", r["pattern"][:60]))
        for v in r["validation"]:
            print("  %s prefix=%r pump=%r suffix=%r fork=%d edges=%r" % (
                "WITNESS " if v["accepted"] else "rejected", v["prefix"], v["pump"], v["suffix"],
                v["fork_state"], v["edges"]))
            print("     timings: " + ", ".join(
                "n=%d: %s" % (m["n"], "%.5fs" % m["t"] if m["t"] is not None else m.get("note"))
                for m in v["measurements"]) + "   [" + v.get("reason", "") + "]")
    print("\nselftest OK, total %.1f s" % (time.perf_counter() - t0))


if __name__ == "__main__":
    main()
