"""RX: regex -> backtracking automaton -> z3 Fixedpoint (Datalog) check for exponential ambiguity.

    from rx import analyze, capture_library_patterns
(lazy, so that `python -m rx.rx` and `python -m rx.selftest` run without a double import)"""
__all__ = ["analyze", "capture_library_patterns", "build_nfa"]


def __getattr__(name):
    if name in __all__:
        from . import rx as _rx
        return getattr(_rx, name)
    raise AttributeError(name)
