"""RX - does CPython's backtracking `re` matcher have exponential worst-case time on a pattern?

Pipeline:  re._parser.parse  ->  Thompson-style eps-NFA in which every alternative that sre's
backtracker tries separately is a distinct eps-edge  ->  product of the automaton with itself  ->
z3 Fixedpoint (engine 'datalog') reachability query  "exists fork p, two different out-edges
p->r1, p->r2, and a word w (|w| >= 1) with r1 -w-> p and r2 -w-> p"  (exponential degree of
ambiguity, EDA).  The query is a finite fixpoint over pairs of automaton states: no bound on |w|.
Every positive answer is turned into prefix / pump / suffix and replayed on the real compiled
pattern in a subprocess with growing repetition counts; only measured blow-up is reported as "eda".
"""
import json
import os
import re
import subprocess
import sys
import time
from collections import deque
from re import _constants as C
from re import _parser

import z3

UNROLL_CAP = 30          # max. copies of a counted-repeat body
STATE_CAP = 60000        # give up (verdict "unknown") beyond this many automaton states
MAX_VALIDATE = 10        # max. distinct attack strings replayed per pattern
NS = (8, 12, 16, 20, 24)  # pump counts for the concrete replay
RUN_TIMEOUT = 6.0        # seconds per replay subprocess (> 5 s acceptance threshold)
XFACT_LIMIT = 250000     # above this many (char state)^2 pairs, X is derived by a Datalog rule
FLOOR = 1e-4             # ignore growth ratios between timings below this (noise)


# --------------------------------------------------------------------------------------------
# character classes = sorted tuples of disjoint closed code-point intervals
# --------------------------------------------------------------------------------------------
def _norm(ivs):
    out = []
    for lo, hi in sorted(ivs):
        if lo > hi:
            continue
        if out and lo <= out[-1][1] + 1:
            out[-1] = (out[-1][0], max(out[-1][1], hi))
        else:
            out.append((lo, hi))
    return tuple(out)


def _neg(ivs, maxcp):
    out, cur = [], 0
    for lo, hi in ivs:
        if lo > cur:
            out.append((cur, lo - 1))
        cur = hi + 1
    if cur <= maxcp:
        out.append((cur, maxcp))
    return tuple(out)


def _inter(a, b):
    i = j = 0
    out = []
    while i < len(a) and j < len(b):
        lo, hi = max(a[i][0], b[j][0]), min(a[i][1], b[j][1])
        if lo <= hi:
            out.append((lo, hi))
        if a[i][1] < b[j][1]:
            i += 1
        else:
            j += 1
    return tuple(out)


def _caseclose(ivs):
    """IGNORECASE, ASCII letters only: add the other case of every ASCII letter in the class."""
    extra = []
    for lo, hi in ivs:
        for base, d in ((65, 32), (97, -32)):
            l, h = max(lo, base), min(hi, base + 25)
            if l <= h:
                extra.append((l + d, h + d))
    return _norm(list(ivs) + extra)


_PREF = ("abcdefghijklmnopqrstuvwxyz0123456789ABCDEFGHIJKLMNOPQRSTUVWXYZ"
         "-_.,;:=+*/#%&@!?~^|<>()[]{}$\"'`\\ ")


def _pick(ivs):
    """A concrete member of a class, printable ASCII if possible, never a surrogate if avoidable."""
    for ch in _PREF:
        o = ord(ch)
        if any(lo <= o <= hi for lo, hi in ivs):
            return o
    for lo, hi in ivs:
        for o in (lo, hi):
            if not 0xD800 <= o <= 0xDFFF:
                return o
    return ivs[0][0]


_CAT = {}


def _category(cat, unicode_mode, maxcp):
    """Interval set of \\d \\s \\w (and negations) exactly as sre decides them."""
    neg = cat in (C.CATEGORY_NOT_DIGIT, C.CATEGORY_NOT_SPACE, C.CATEGORY_NOT_WORD)
    kind = {C.CATEGORY_DIGIT: "d", C.CATEGORY_NOT_DIGIT: "d", C.CATEGORY_SPACE: "s",
            C.CATEGORY_NOT_SPACE: "s", C.CATEGORY_WORD: "w", C.CATEGORY_NOT_WORD: "w"}.get(cat)
    if kind is None:
        raise Unsupported("category %r" % (cat,))
    key = (kind, unicode_mode)
    if key not in _CAT:
        if unicode_mode:  # Py_UNICODE_ISDECIMAL / ISSPACE / ISALNUM||'_' == these str methods
            pred = {"d": str.isdecimal, "s": str.isspace,
                    "w": lambda ch: ch.isalnum() or ch == "_"}[kind]
            ivs, start = [], None
            for o in range(0x110000):
                if pred(chr(o)):
                    if start is None:
                        start = o
                elif start is not None:
                    ivs.append((start, o - 1))
                    start = None
            if start is not None:
                ivs.append((start, 0x10FFFF))
            _CAT[key] = tuple(ivs)
        else:
            _CAT[key] = {"d": ((48, 57),), "s": ((9, 13), (32, 32)),
                         "w": ((48, 57), (65, 90), (95, 95), (97, 122))}[kind]
    return _neg(_CAT[key], maxcp) if neg else _CAT[key]


# --------------------------------------------------------------------------------------------
# parse tree -> eps-NFA.   Invariant: a state has EITHER one character out-edge (chr[s]) OR only
# eps out-edges (eps[s], in sre priority order, all targets distinct so an edge == its target).
# --------------------------------------------------------------------------------------------
class Unsupported(Exception):
    pass


class NFA:
    def __init__(self, is_bytes):
        self.is_bytes = is_bytes
        self.maxcp = 255 if is_bytes else 0x10FFFF
        self.eps, self.chr, self.notes = [], [], []
        self._classes, self._meet = {}, {}         # interned classes; memo of intersections
        self.start = self.accept = None

    def note(self, msg):
        if msg not in self.notes:
            self.notes.append(msg)

    def new(self):
        if len(self.eps) >= STATE_CAP:
            raise Unsupported("automaton exceeds %d states" % STATE_CAP)
        self.eps.append([])
        self.chr.append(None)
        return len(self.eps) - 1

    def link(self, s, t):
        """eps-edge s->t; a pass-through state keeps parallel edges distinguishable by target."""
        if t in self.eps[s]:
            m = self.new()
            self.eps[m].append(t)
            t = m
        self.eps[s].append(t)

    def char(self, cls, nxt):
        s = self.new()
        cls = self._classes.setdefault(cls, cls)   # intern: equal classes are the same object
        self.chr[s] = (cls, nxt)                   # an empty class is a dead edge; harmless
        return s

    def meet(self, c1, c2):
        """Intersection of two (interned) classes, memoised by identity."""
        k = (id(c1), id(c2))
        if k not in self._meet:
            self._meet[k] = self._meet[(k[1], k[0])] = _inter(c1, c2)
        return self._meet[k]

    # -- classes --
    def _cls(self, ivs, flags, negate=False):
        ivs = _norm(ivs)
        if flags & re.IGNORECASE:
            self.note("IGNORECASE: only ASCII letters are case-expanded")
            ivs = _caseclose(ivs)
        if negate:
            ivs = _neg(ivs, self.maxcp)
        return _inter(ivs, ((0, self.maxcp),))

    def _in(self, items, flags):
        uni = not self.is_bytes and not flags & re.ASCII
        if flags & re.LOCALE:
            self.note("LOCALE: categories treated as ASCII")
            uni = False
        ivs, negate = [], False
        for op, av in items:
            if op is C.NEGATE:
                negate = True
            elif op is C.LITERAL:
                ivs.append((av, av))
            elif op is C.RANGE:
                ivs.append((av[0], av[1]))
            elif op is C.CATEGORY:
                ivs.extend(_category(av, uni, self.maxcp))
            else:
                raise Unsupported("set item %s" % (op,))
        return self._cls(ivs, flags, negate)

    # -- structure (built back to front: `nxt` is the continuation state) --
    def seq(self, items, nxt, flags):
        for op, av in reversed(list(items)):
            nxt = self.item(op, av, nxt, flags)
        return nxt

    def item(self, op, av, nxt, flags):
        if op is C.LITERAL:
            return self.char(self._cls([(av, av)], flags), nxt)
        if op is C.NOT_LITERAL:
            return self.char(self._cls([(av, av)], flags, True), nxt)
        if op is C.ANY:
            return self.char(((0, self.maxcp),) if flags & re.DOTALL
                             else _neg(((10, 10),), self.maxcp), nxt)
        if op is C.IN:
            return self.char(self._in(av, flags), nxt)
        if op is C.BRANCH:                       # one fork, one eps-edge per alternative
            fork = self.new()
            for alt in av[1]:
                self.link(fork, self.seq(alt, nxt, flags))
            return fork
        if op is C.SUBPATTERN:                   # group index ignored; scoped flags honoured
            _group, add, dele, p = av
            return self.seq(p, nxt, (flags | add) & ~dele)
        if op in (C.MAX_REPEAT, C.MIN_REPEAT, C.POSSESSIVE_REPEAT):
            return self.repeat(op, av, nxt, flags)
        if op is C.AT:                           # anchors: eps, no consumption (over-approx.)
            s = self.new()
            self.link(s, nxt)
            return s
        if op in (C.ASSERT, C.ASSERT_NOT):
            self.note("lookaround skipped (body not analysed, treated as non-consuming eps)")
            return nxt
        if op is C.ATOMIC_GROUP:
            self.note("atomic group treated as plain group (over-approximation)")
            return self.seq(av, nxt, flags)
        if op is C.GROUPREF_EXISTS:
            self.note("conditional (?(n)..|..) treated as plain alternation (over-approximation)")
            fork = self.new()
            self.link(fork, self.seq(av[1], nxt, flags))
            self.link(fork, self.seq(av[2], nxt, flags) if av[2] is not None else nxt)
            return fork
        if op is C.FAILURE:
            return self.new()                    # dead state
        if op is C.GROUPREF:
            raise Unsupported("backreference")
        raise Unsupported("op %s" % (op,))

    def repeat(self, op, av, nxt, flags):
        lo, hi, body = av
        greedy = op is not C.MIN_REPEAT
        if op is C.POSSESSIVE_REPEAT:
            self.note("possessive repeat treated as greedy (over-approximation)")
        inf = hi is C.MAXREPEAT or hi >= C.MAXREPEAT
        if not inf and hi > UNROLL_CAP:
            self.note("counted repeat {%d,%d} capped at %d copies: upper bound replaced by a star"
                      % (lo, hi, UNROLL_CAP))
            inf = True
        if lo > UNROLL_CAP:
            self.note("counted repeat minimum %d capped at %d copies" % (lo, UNROLL_CAP))
            lo = UNROLL_CAP

        def fork(enter_from, leave):             # [enter body, leave] in sre's priority order
            f = self.new()
            inner = self.seq(body, enter_from(f), flags)
            for t in ((inner, leave) if greedy else (leave, inner)):
                self.link(f, t)
            return f, inner

        if inf:
            if lo >= 1:    # X{m,}: m-1 copies, then X+ as  body -> L,  L = fork[body, leave]
                _f, tail = fork(lambda f: f, nxt)
                lo -= 1
            else:          # X*: L = fork[body -> L, leave]
                tail, _inner = fork(lambda f: f, nxt)
        else:              # X{m,n}: n-m nested optional copies
            tail = nxt
            for _ in range(hi - lo):
                tail, _inner = fork(lambda f, t=tail: t, nxt)
        for _ in range(lo):
            tail = self.seq(body, tail, flags)
        return tail


def build_nfa(pattern, flags=0):
    tree = _parser.parse(pattern, flags)
    nfa = NFA(isinstance(pattern, (bytes, bytearray)))
    nfa.flags = tree.state.flags                 # effective flags (inline (?x) etc. included)
    nfa.accept = nfa.new()
    nfa.start = nfa.seq(tree, nfa.accept, nfa.flags)
    return nfa


def _succ(nfa, v):
    return nfa.eps[v] + ([nfa.chr[v][1]] if nfa.chr[v] else [])


def _sccs(nfa):
    """Tarjan, iterative. Returns the list of strongly connected components (lists of states)."""
    n = len(nfa.eps)
    index, low, onst, st, out, idx = [None] * n, [0] * n, [False] * n, [], [], 0
    for root in range(n):
        if index[root] is not None:
            continue
        index[root] = low[root] = idx
        idx += 1
        st.append(root)
        onst[root] = True
        work = [(root, iter(_succ(nfa, root)))]
        while work:
            v, it = work[-1]
            for w in it:
                if index[w] is None:
                    index[w] = low[w] = idx
                    idx += 1
                    st.append(w)
                    onst[w] = True
                    work.append((w, iter(_succ(nfa, w))))
                    break
                if onst[w]:
                    low[v] = min(low[v], index[w])
            else:
                work.pop()
                if work:
                    low[work[-1][0]] = min(low[work[-1][0]], low[v])
                if low[v] == index[v]:
                    comp = []
                    while True:
                        w = st.pop()
                        onst[w] = False
                        comp.append(w)
                        if w == v:
                            break
                    out.append(comp)
    return out


# --------------------------------------------------------------------------------------------
# the Datalog query.  One Fixedpoint per cyclic SCC: a run r_i ->* p that starts with the edge
# p -> r_i never leaves the SCC of p, so restricting E and X to the SCC only shrinks the fact
# base, not the answer.
#   E(a,a2)            eps-edges
#   X(a,a2,b,b2)       synchronous character steps whose classes intersect
#   F(p,r1,r2)         fork p with ordered pair of different out-edges
#   R(r1,r2,a,b,c)     product state (a,b) reachable from (r1,r2); c = "a character was consumed"
#   Q(p,r1,r2)  :-  F(p,r1,r2), R(r1,r2,p,p,1)
# --------------------------------------------------------------------------------------------
def _answer_tuples(ans, arity):
    if z3.is_false(ans):
        return []
    out = []
    for conj in (ans.children() if z3.is_or(ans) else [ans]):
        d = {}
        for eq in (conj.children() if z3.is_and(conj) else [conj]):
            l, r = eq.children()
            if z3.is_var(r):
                l, r = r, l
            d[z3.get_var_index(l)] = r.as_long()
        out.append(tuple(d[i] for i in range(arity)))
    return out


def _datalog_scc(nfa, comp, timeout_ms):
    """-> (list of global (p, r1, r2) with Q true, #seeds, #queries, seconds, facts)"""
    forks = [p for p in sorted(comp) if len(nfa.eps[p]) >= 2]
    # universe = the SCC plus the fork successors that leave it (dead ends here: they have no
    # out-facts), so that EVERY ordered pair of out-edges of every fork on a cycle is queried
    comp = sorted(comp) + sorted({t for p in forks for t in nfa.eps[p]} - set(comp))
    loc = {s: i for i, s in enumerate(comp)}
    seeds = [(p, r1, r2) for p in forks for r1 in nfa.eps[p] for r2 in nfa.eps[p] if r1 != r2]
    if not seeds:
        return [], 0, 0, 0.0, 0
    t0 = time.perf_counter()
    nb = max(1, (len(comp) - 1).bit_length())
    bv, b1, B = z3.BitVecSort(nb), z3.BitVecSort(1), z3.BoolSort()
    fp = z3.Fixedpoint()
    fp.set(engine="datalog")
    try:
        fp.set(timeout=max(1, int(timeout_ms)))
    except z3.Z3Exception:
        pass
    E = z3.Function("E", bv, bv, B)
    X = z3.Function("X", bv, bv, bv, bv, B)
    F = z3.Function("F", bv, bv, bv, B)
    R = z3.Function("R", bv, bv, bv, bv, b1, B)
    Q = z3.Function("Q", bv, bv, bv, B)
    for rel in (E, X, F, R, Q):
        fp.register_relation(rel)
    a, a2, b, b2, r1, r2, p = (z3.Const(x, bv) for x in "a a2 b b2 r1 r2 p".split())
    c = z3.Const("c", b1)
    fp.declare_var(a, a2, b, b2, r1, r2, p, c)
    zero, one = z3.BitVecVal(0, 1), z3.BitVecVal(1, 1)
    fp.rule(R(r1, r2, r1, r2, zero), [F(p, r1, r2)])                  # seed
    fp.rule(R(r1, r2, a2, b, c), [R(r1, r2, a, b, c), E(a, a2)])      # left eps step
    fp.rule(R(r1, r2, a, b2, c), [R(r1, r2, a, b, c), E(b, b2)])      # right eps step
    fp.rule(R(r1, r2, a2, b2, one), [R(r1, r2, a, b, c), X(a, a2, b, b2)])  # synchronous char
    fp.rule(Q(p, r1, r2), [F(p, r1, r2), R(r1, r2, p, p, one)])
    V = [z3.BitVecVal(i, nb) for i in range(len(comp))]
    nfacts = 0
    for s in comp:
        for t in nfa.eps[s]:
            if t in loc:
                fp.fact(E(V[loc[s]], V[loc[t]]))
                nfacts += 1
    chars = [(s, nfa.chr[s][0], nfa.chr[s][1]) for s in comp
             if nfa.chr[s] and nfa.chr[s][1] in loc and nfa.chr[s][0]]
    if len(chars) ** 2 <= XFACT_LIMIT:              # X as precomputed facts
        for s, cs, ts in chars:
            for u, cu, tu in chars:
                if nfa.meet(cs, cu):                # classes intersect (interval arithmetic)
                    fp.fact(X(V[loc[s]], V[loc[ts]], V[loc[u]], V[loc[tu]]))
                    nfacts += 1
    else:   # huge SCC: same relation, derived inside Datalog from per-class facts (fewer facts)
        nfa.note("X derived by rule from class-overlap facts for an SCC with %d char states" % len(chars))
        kid = {}
        for _s, cs, _t in chars:
            kid.setdefault(id(cs), (len(kid), cs))
        kb = z3.BitVecSort(max(1, (len(kid) - 1).bit_length()))
        Ch, I = z3.Function("Ch", bv, bv, kb, B), z3.Function("I", kb, kb, B)
        fp.register_relation(Ch)
        fp.register_relation(I)
        k1, k2 = z3.Const("k1", kb), z3.Const("k2", kb)
        fp.declare_var(k1, k2)
        fp.rule(X(a, a2, b, b2), [Ch(a, a2, k1), Ch(b, b2, k2), I(k1, k2)])
        for s, cs, ts in chars:
            fp.fact(Ch(V[loc[s]], V[loc[ts]], z3.BitVecVal(kid[id(cs)][0], kb)))
        for i, ci in kid.values():
            for j, cj in kid.values():
                if nfa.meet(ci, cj):
                    fp.fact(I(z3.BitVecVal(i, kb), z3.BitVecVal(j, kb)))
                    nfacts += 1
        nfacts += len(chars)
    for pp, s1, s2 in seeds:
        fp.fact(F(V[loc[pp]], V[loc[s1]], V[loc[s2]]))
    nq, hits = 1, []
    res = fp.query(Q)                               # one saturation answers every seed at once
    if res == z3.unknown:
        raise Unsupported("datalog returned unknown (reason %r) after %.0f s of a %.0f s budget"
                          % (fp.reason_unknown(), time.perf_counter() - t0, timeout_ms / 1000))
    if res == z3.sat:
        try:
            hits = [(comp[x], comp[y], comp[z]) for x, y, z in _answer_tuples(fp.get_answer(), 3)]
            assert set(hits) <= set(seeds)
        except Exception:                           # answer not in tuple form: ask seed by seed
            hits = []
            for pp, s1, s2 in seeds:
                nq += 1
                if fp.query(Q(V[loc[pp]], V[loc[s1]], V[loc[s2]])) == z3.sat:
                    hits.append((pp, s1, s2))
    return hits, len(seeds), nq, time.perf_counter() - t0, nfacts


# --------------------------------------------------------------------------------------------
# witness extraction (plain BFS; the verdict itself came from Datalog)
# --------------------------------------------------------------------------------------------
def _pump_word(nfa, comp, p, r1, r2):
    ins = set(comp)
    start, goal = (r1, r2, 0), (p, p, 1)
    prev = {start: None}
    dq = deque([start])
    while dq:
        cur = dq.popleft()
        if cur == goal:
            break
        x, y, cflag = cur
        steps = [((t, y, cflag), None) for t in nfa.eps[x] if t in ins]
        steps += [((x, t, cflag), None) for t in nfa.eps[y] if t in ins]
        if nfa.chr[x] and nfa.chr[y] and nfa.chr[x][1] in ins and nfa.chr[y][1] in ins:
            both = nfa.meet(nfa.chr[x][0], nfa.chr[y][0])
            if both:
                steps.append(((nfa.chr[x][1], nfa.chr[y][1], 1), both))
        for nx, lab in steps:
            if nx not in prev:
                prev[nx] = (cur, lab)
                dq.append(nx)
    if goal not in prev:
        return None
    word, cur = [], goal
    while prev[cur] is not None:
        cur, lab = prev[cur]
        if lab is not None:
            word.append(_pick(lab))
    return word[::-1]


def _prefix_word(nfa, target):
    prev = {nfa.start: None}
    dq = deque([nfa.start])
    while dq:
        s = dq.popleft()
        if s == target:
            break
        for t in nfa.eps[s]:
            if t not in prev:
                prev[t] = (s, None)
                dq.append(t)
        if nfa.chr[s] and nfa.chr[s][0] and nfa.chr[s][1] not in prev:
            prev[nfa.chr[s][1]] = (s, nfa.chr[s][0])
            dq.append(nfa.chr[s][1])
    if target not in prev:
        return None
    word, cur = [], target
    while prev[cur] is not None:
        cur, lab = prev[cur]
        if lab is not None:
            word.append(_pick(lab))
    return word[::-1]


# --------------------------------------------------------------------------------------------
# concrete replay on the real compiled pattern, in a subprocess with a timeout
# --------------------------------------------------------------------------------------------
_CHILD = r"""
import sys, json, re, time
d = json.load(sys.stdin)
conv = (lambda s: s.encode('latin-1')) if d['bytes'] else (lambda s: s)
pat = re.compile(conv(d['pattern']), d['flags'])
pre, pump = conv(d['prefix']), conv(d['pump'])
if d['mode'] == 'pick':      # first suffix that makes the overall match FAIL (so sre backtracks)
    out = None
    for s in d['suffixes']:
        if pat.match(pre + pump * 3 + conv(s)) is None and pat.match(pre + pump * 2 + conv(s)) is None:
            out = s
            break
    print(json.dumps({'suffix': out}))
else:
    s = pre + pump * d['n'] + conv(d['suffix'])
    best = None
    for _ in range(3):
        t = time.perf_counter(); m = pat.match(s); dt = time.perf_counter() - t
        best = dt if best is None else min(best, dt)
        if dt > 0.05:
            break
    print(json.dumps({'t': best, 'matched': m is not None}))
"""
_SUFFIXES = ["!", "\x00", "\n", "'", "~", "", " ", "\x7f", "a", "0", "\x00\x00", "!\n!"]


def _child(job, timeout):
    try:
        cp = subprocess.run([sys.executable, "-c", _CHILD], input=json.dumps(job),
                            capture_output=True, text=True, timeout=timeout)
        return json.loads(cp.stdout)
    except subprocess.TimeoutExpired:
        return {"timeout": True}
    except Exception as e:  # crash of the child, unparsable output
        return {"error": repr(e)}


def _decide(ts):
    """ts = [(n, seconds, timed_out)] -> (accepted, #x6-jumps, blow-up past 5 s)"""
    jumps = sum(1 for (_n0, t0, _), (_n1, t1, _x) in zip(ts, ts[1:])
                if t1 >= FLOOR and t1 > 6 * t0)
    blow = any(t1 > 5 or to for i, (_n, t1, to) in enumerate(ts)
               if any(t0 < 0.5 for _m, t0, _y in ts[:i]))
    return jumps >= 2 or blow, jumps, blow


def _validate(pattern, flags, is_bytes, prefix, pump, early_stop=False):
    """Replay prefix + pump*n + suffix for growing n. -> dict(accepted, suffix, measurements).
    early_stop: stop measuring as soon as the acceptance criterion is already met."""
    dec = (lambda s: s.decode("latin-1")) if is_bytes else (lambda s: s)
    job = {"pattern": dec(pattern), "flags": int(flags), "bytes": is_bytes,
           "prefix": dec(prefix), "pump": dec(pump)}
    out = {"accepted": False, "suffix": None, "measurements": []}
    r = _child(dict(job, mode="pick", suffixes=_SUFFIXES), RUN_TIMEOUT * 2)
    if r.get("suffix") is None:
        out["reason"] = "no failing suffix found" if "suffix" in r else "suffix probe: %r" % (r,)
        return out
    suffix = r["suffix"]
    out["suffix"] = suffix.encode("latin-1") if is_bytes else suffix
    ts = []
    for n in NS:
        r = _child(dict(job, mode="time", suffix=suffix, n=n), RUN_TIMEOUT)
        if "t" not in r:
            out["measurements"].append({"n": n, "t": None, "note": "timeout > %gs" % RUN_TIMEOUT
                                        if r.get("timeout") else r.get("error")})
            if r.get("timeout"):
                ts.append((n, RUN_TIMEOUT, True))
            break
        out["measurements"].append({"n": n, "t": r["t"], "matched": r["matched"]})
        if r["matched"]:
            out["reason"] = "match succeeded at n=%d" % n
            return out
        ts.append((n, r["t"], False))
        if early_stop and _decide(ts)[0]:
            break
    out["accepted"], jumps, blow = _decide(ts)
    out["reason"] = "x6 growth per +4 pumps: %d times%s" % (jumps, "; blow-up past 5 s" if blow else "")
    return out


# --------------------------------------------------------------------------------------------
# public: analyze
# --------------------------------------------------------------------------------------------
def analyze(pattern, flags=0, timeout_ms=120000, validate=True, exhaustive=False):
    """validate=False: Datalog only (positives become verdict "unknown").  exhaustive=True: after
    the first validated witness keep replaying the other candidates (-> result["witnesses"])."""
    t_start = time.perf_counter()
    res = {"pattern": repr(pattern), "states": 0, "eps_edges": 0, "char_edges": 0,
           "fork_states": 0, "datalog_queries": 0, "solver_s": 0.0, "verdict": "unknown",
           "witness": None, "witnesses": [], "validation": [], "notes": []}
    try:
        nfa = build_nfa(pattern, int(flags))
    except Unsupported as e:
        res["notes"].append("unsupported construct: %s" % e)
        return res
    except Exception as e:  # re.error, RecursionError ...
        res["notes"].append("cannot parse/build: %r" % (e,))
        return res
    res["notes"] = nfa.notes
    res["states"] = len(nfa.eps)
    res["eps_edges"] = sum(len(e) for e in nfa.eps)
    res["char_edges"] = sum(1 for ch in nfa.chr if ch)
    res["fork_states"] = sum(1 for e in nfa.eps if len(e) >= 2)

    # Datalog, one fixpoint per cyclic SCC that contains a fork
    cands, seeds_total, sccs_used, facts = [], 0, 0, 0
    for comp in _sccs(nfa):
        if len(comp) == 1 and comp[0] not in _succ(nfa, comp[0]):
            continue                                # forks outside any cycle cannot return
        left = timeout_ms - (time.perf_counter() - t_start) * 1000
        if left <= 0:
            res["notes"].append("timeout before all SCCs were analysed")
            return res
        try:
            hits, nseeds, nq, secs, nf = _datalog_scc(nfa, comp, left)
        except (Unsupported, z3.Z3Exception) as e:
            res["notes"].append("solver: %s" % e)
            return res
        if nseeds:
            sccs_used += 1
        seeds_total += nseeds
        facts += nf
        res["datalog_queries"] += nq
        res["solver_s"] = round(res["solver_s"] + secs, 4)
        cands += [(comp, h) for h in hits]
    res["notes"].append("datalog: %d cyclic SCC fixpoint(s), %d (fork,edge,edge) seeds, %d facts, "
                        "%d positive" % (sccs_used, seeds_total, facts, len(cands)))
    if not cands:
        res["verdict"] = "no-eda"
        return res

    # candidates -> attack strings (unordered edge pairs; shortest pump first)
    mk = (lambda w: bytes(w)) if nfa.is_bytes else (lambda w: "".join(map(chr, w)))
    attacks, seen = [], set()
    for comp, (p, r1, r2) in cands:
        if (p, r2, r1) in seen:
            continue
        seen.add((p, r1, r2))
        pump, prefix = _pump_word(nfa, comp, p, r1, r2), _prefix_word(nfa, p)
        if pump is None or prefix is None:        # would contradict the Datalog answer
            res["notes"].append("BUG? no BFS witness for datalog-positive %r" % ((p, r1, r2),))
            continue
        attacks.append((mk(prefix), mk(pump), p, r1, r2))
    attacks.sort(key=lambda x: (len(x[1]), len(x[0]), x[2:]))
    tried, rejected = set(), []
    for prefix, pump, p, r1, r2 in attacks:
        desc = "candidate fork=%d edges=(%d,%d) prefix=%r pump=%r" % (p, r1, r2, prefix, pump)
        if (prefix, pump) in tried:
            continue
        if not validate or len(tried) >= MAX_VALIDATE or (res["witness"] and not exhaustive):
            rejected.append(desc + " (not replayed)")
            continue
        tried.add((prefix, pump))
        v = _validate(pattern, nfa.flags, nfa.is_bytes, prefix, pump,
                      early_stop=res["witness"] is not None)
        res["validation"].append(dict(v, prefix=prefix, pump=pump, fork_state=p, edges=[r1, r2]))
        if v["accepted"]:
            w = {"prefix": prefix, "pump": pump, "suffix": v["suffix"], "fork_state": p,
                 "edges": [r1, r2]}
            res["witnesses"].append(w)
            if res["witness"] is None:
                res["verdict"], res["witness"] = "eda", w
            res["notes"].append("validated: %s: %s" % (desc, v["reason"]))
        else:
            rejected.append(desc + " rejected: " + v.get("reason", ""))
    if res["witness"] is None:
        res["verdict"] = "no-eda" if validate else "unknown"
        res["notes"].append("candidate rejected by concrete validation" if validate
                            else "candidates not validated")
    res["notes"] += rejected[:40]
    return res


# --------------------------------------------------------------------------------------------
# public: capture every pattern the library hands to `re`
# --------------------------------------------------------------------------------------------
CAPTURE_ERRORS = []     # problems while importing / driving the library (informational)
_FLAGPOS = {"compile": 0, "sub": 3, "match": 1, "search": 1, "fullmatch": 1, "split": 2,
            "findall": 1}   # index of `flags` among the positional args after `pattern`


def capture_library_patterns(repo_src="/repo/src"):
    import importlib
    import pkgutil
    real = {n: getattr(re, n) for n in _FLAGPOS}
    seen = {}
    del CAPTURE_ERRORS[:]

    def record(name, pattern, args, kw):
        flags = kw.get("flags", args[_FLAGPOS[name]] if len(args) > _FLAGPOS[name] else 0)
        if isinstance(pattern, re.Pattern):          # re.match(COMPILED, s)
            pattern, flags = pattern.pattern, pattern.flags
        else:                                        # effective flags, as CPython will run it
            flags = real["compile"](pattern, flags).flags
        # nearest caller outside `re`; must be the library itself, or stdlib code running on its
        # behalf at call time (not an unrelated module that is merely being imported by it)
        f, first, lib = sys._getframe(2), None, None
        while f is not None:
            mod = f.f_globals.get("__name__", "")
            if mod != "re" and not mod.startswith("re.") and mod != __name__:
                if first is None:
                    first = "%s:%s" % (mod, f.f_code.co_name)
                if mod == "sansldap" or mod.startswith("sansldap."):
                    lib = "%s:%s" % (mod, f.f_code.co_name)
                    break
                if mod.startswith("importlib"):
                    break
            f = f.f_back
        if lib is None:
            return
        key = (pattern, int(flags))
        if key not in seen:
            seen[key] = {"pattern": pattern, "flags": int(flags), "is_bytes": isinstance(pattern, bytes),
                         "where": first if first == lib else "%s (via %s)" % (first, lib)}

    def wrap(name):
        fn = real[name]

        def wrapper(pattern, *args, **kw):
            try:
                record(name, pattern, args, kw)
            except Exception as e:                   # never disturb the library
                CAPTURE_ERRORS.append("record %s: %r" % (name, e))
            return fn(pattern, *args, **kw)
        wrapper.__name__ = name
        return wrapper

    for m in [m for m in sys.modules if m == "sansldap" or m.startswith("sansldap.")]:
        del sys.modules[m]
    sys.path.insert(0, repo_src)
    importlib.invalidate_caches()
    for n in real:
        setattr(re, n, wrap(n))
    try:
        sansldap = importlib.import_module("sansldap")
        for mi in pkgutil.walk_packages(sansldap.__path__, "sansldap."):
            try:
                importlib.import_module(mi.name)
            except Exception as e:
                CAPTURE_ERRORS.append("import %s: %r" % (mi.name, e))
        schema = importlib.import_module("sansldap.schema")
        drives = [
            (lambda: schema.ObjectClassDescription.from_string(
                "( 1.2.3 NAME 'a' DESC 'd\\27x' SUP top STRUCTURAL MUST cn MAY ( a $ b ) "
                "X-FOO 'bar' X-BAZ ( 'a' 'b' ) )")),
            (lambda: schema.AttributeTypeDescription.from_string(
                "( 1.2.3 NAME 'a' DESC 'd' SYNTAX 1.2.3{64} SINGLE-VALUE X-ORIGIN 'x' )")),
            (lambda: schema.DITContentRuleDescription.from_string(
                "( 1.2.3 NAME 'a' DESC 'd' AUX ( a $ b ) MUST cn )")),
            (lambda: sansldap.LDAPFilter.from_string(r"(&(cn=a\2ab*c)(!(sn:dn:2.5.13.2:=x))(o~=y))")),
        ]
        for i, d in enumerate(drives):
            try:
                str(d())
            except Exception as e:
                CAPTURE_ERRORS.append("drive %d: %r" % (i, e))
    finally:
        for n, fn in real.items():
            setattr(re, n, fn)
    for rec in seen.values():                        # extra key: module-level constant name, if any
        mod = sys.modules.get(rec["where"].split(":")[0])
        rec["name"] = next((k for k, v in sorted(vars(mod).items()) if isinstance(v, re.Pattern)
                            and (v.pattern, v.flags) == (rec["pattern"], rec["flags"])), None) if mod else None
    return list(seen.values())


# --------------------------------------------------------------------------------------------
def _jsonable(o):
    if isinstance(o, (bytes, bytearray)):
        return {"bytes_latin1": bytes(o).decode("latin-1")}
    return repr(o)


def cli():
    out = []
    for rec in capture_library_patterns():
        r = analyze(rec["pattern"], rec["flags"], exhaustive=True)
        r.update(where=rec["where"], name=rec["name"], flags=rec["flags"], is_bytes=rec["is_bytes"])
        out.append(r)
    print(json.dumps(out, indent=1, default=_jsonable))


if __name__ == "__main__":
    cli()
