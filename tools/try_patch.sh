#!/bin/sh
# usage: tools/try_patch.sh <patch.diff> <ID> [<ID>...]   - run quick checks against a scratch copy of /repo/src with the patch applied
set -e
P=$(realpath "$1"); shift
T=$(mktemp -d /tmp/sxmut.XXXXXX)
trap 'rm -rf "$T"' EXIT
mkdir -p "$T/repo"
cp -r /repo/src "$T/repo/src"
(cd "$T/repo" && patch -p1 -s < "$P")
for id in "$@"; do
  SX_EVIDENCE_DIR="$T/evidence" SX_REPLAY_DIR=/verif/scratch/replays SX_REPO_SRC="$T/repo/src" /verif/check "$id" --tier "${TIER:-quick}" 2>&1 | grep -E "VIOLATION|^\[|INCONCLUSIVE|ENGINE-FAULT" | cut -c1-300 || true
done
