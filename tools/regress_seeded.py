#!/usr/bin/env python3
"""Re-run the quick check of its own property against every seeded change (expected: exit 1 with a
VIOLATION line) and the related checks against every behaviour-preserving refactor (expected:
exit 0).  Works on scratch copies of /repo (tools/eval_mutant.py); /repo itself is not touched.

usage: tools/regress_seeded.py [--jobs N] [--only SUBSTR] [--benign] [--seeded]
Writes scratch/regress/<id>.json and prints one line per change; exit 1 if anything deviates.
"""
import concurrent.futures as cf
import glob
import json
import os
import subprocess
import sys

V = os.path.dirname(os.path.dirname(os.path.abspath(__file__)))
BENIGN_CHECKS = {
    "asn1": ["C07", "C01", "C05", "C06", "C02", "C04"],
    "messages": ["C01", "C03", "C04", "C05", "C06", "C02"],
    "session": ["C08", "C09", "C10", "C12", "C11", "C02", "C05", "C19", "C06"],
    "filter": ["C13", "C14", "C15", "C18", "C01"],
    "schema": ["C16", "C17", "C18"],
    "controls": ["C01", "C03", "C04", "C19", "C05"],
}


def one(job):
    kind, d, ids, per = job
    name = os.path.basename(d)
    out = os.path.join(V, "scratch", "regress", name + ".json")
    env = dict(os.environ, VERIF_JOBS=str(per))
    r = subprocess.run([sys.executable, os.path.join(V, "tools", "eval_mutant.py"), d] + ids, capture_output=True, text=True, env=env)
    with open(out, "w") as fh:
        fh.write(r.stdout)
    try:
        res = json.loads(r.stdout)
    except Exception:  # noqa: BLE001
        return name, kind, False, "no result: " + (r.stderr or r.stdout)[-200:]
    exits = {p: c.get("exit") for p, c in res.get("checks", {}).items()}
    if kind == "seeded":
        ok = res.get("tests_pass_with_change") and all(e == 1 for e in exits.values())
    else:
        ok = res.get("tests_pass_with_change") and all(e == 0 for e in exits.values())
    return name, kind, bool(ok), json.dumps(exits)


def main():
    a = sys.argv[1:]
    jobs = 4
    if "--jobs" in a:
        jobs = int(a[a.index("--jobs") + 1])
    only = a[a.index("--only") + 1] if "--only" in a else None
    do_seeded = "--benign" not in a or "--seeded" in a
    do_benign = "--seeded" not in a or "--benign" in a
    per = max(2, (os.cpu_count() or 16) // jobs)
    os.makedirs(os.path.join(V, "scratch", "regress"), exist_ok=True)
    work = []
    if do_seeded:
        for d in sorted(glob.glob(os.path.join(V, "seeded", "C*"))):
            work.append(("seeded", d, [os.path.basename(d)[:3]], per))
    if do_benign:
        for d in sorted(glob.glob(os.path.join(V, "benign", "*-R*"))):
            work.append(("benign", d, BENIGN_CHECKS[os.path.basename(d).split("-")[0]], per))
    if only:
        work = [w for w in work if only in os.path.basename(w[1])]
    bad = 0
    with cf.ThreadPoolExecutor(max_workers=jobs) as ex:
        for name, kind, ok, info in ex.map(one, work):
            print(("ok   " if ok else "FAIL ") + f"{kind} {name} {info}", flush=True)
            bad += 0 if ok else 1
    print(f"{len(work)} changes, {bad} deviations")
    return 1 if bad else 0


if __name__ == "__main__":
    sys.exit(main())
