#!/bin/sh
# Builds the overlay interpreter used by every check: /venv's python + its site-packages + z3 from
# the offline wheelhouse.  Idempotent; called by MANIFEST.setup_cmd and by ./check when missing.
set -e
HERE=$(cd "$(dirname "$0")/.." && pwd)
V="$HERE/.venv"
if [ -x "$V/bin/python" ] && "$V/bin/python" -c "import z3" 2>/dev/null; then exit 0; fi
rm -rf "$V"
/venv/bin/python -m venv "$V"
SP=$("$V/bin/python" -c "import sysconfig; print(sysconfig.get_paths()['purelib'])")
printf '/venv/lib/python3.12/site-packages\n' > "$SP/base.pth"
PIP_NO_INDEX=1 "$V/bin/python" -m pip install -q --no-index --find-links /opt/veriftools/wheels z3-solver >/dev/null 2>&1
"$V/bin/python" -c "import z3; print('z3', z3.get_version_string())"
