#!/usr/bin/env python3
"""Evaluate a seeded change: tests still pass, demo fails with / passes without, which checks see it.

usage: tools/eval_mutant.py <dir with patch.diff + demo.py> <ID> [<ID> ...] [--tier quick|thorough]
Works on a scratch copy of /repo (removed afterwards); /repo itself is not touched.
"""
import json
import os
import shutil
import subprocess
import sys
import tempfile

VERIF = os.path.dirname(os.path.dirname(os.path.abspath(__file__)))


def run(cmd, timeout=None, **kw):
    """run in a process group of its own, so that a timeout takes the worker processes with it"""
    import signal

    p = subprocess.Popen(cmd, stdout=subprocess.PIPE, stderr=subprocess.STDOUT, text=True, start_new_session=True, **kw)
    try:
        out, _ = p.communicate(timeout=timeout)
        return p.returncode, out
    except subprocess.TimeoutExpired:
        try:
            os.killpg(p.pid, signal.SIGKILL)
        except ProcessLookupError:
            pass
        out, _ = p.communicate()
        return 124, (out or "") + "\n[timed out]"


def main():
    args = sys.argv[1:]
    tier = "quick"
    if "--tier" in args:
        i = args.index("--tier")
        tier = args[i + 1]
        del args[i : i + 2]
    mdir = os.path.abspath(args[0])
    ids = args[1:]
    tmp = tempfile.mkdtemp(prefix="sxmut.")
    res = {"mutant": mdir, "tier": tier}
    try:
        dst = os.path.join(tmp, "repo")
        shutil.copytree("/repo", dst, ignore=shutil.ignore_patterns(".git", "__pycache__", "*.pyc", "docs"))
        rc, out = run(["patch", "-p1", "-s", "-i", os.path.join(mdir, "patch.diff")], cwd=dst)
        res["patch_applies"] = rc == 0
        if rc != 0:
            res["patch_output"] = out[-500:]
            print(json.dumps(res, indent=1))
            return 2
        env = dict(os.environ, PYTHONPATH=os.path.join(dst, "src"))
        rc, out = run(["/venv/bin/python", "-m", "pytest", "-q", "-p", "no:cacheprovider", "-x", "tests"], cwd=dst, env=env)
        res["tests_pass_with_change"] = rc == 0
        res["tests_tail"] = out.strip().splitlines()[-1] if out.strip() else ""
        demo = os.path.join(mdir, "demo.py")
        if os.path.exists(demo):
            rc1, out1 = run(["/venv/bin/python", demo], env=env, cwd=dst, timeout=600)
            rc0, out0 = run(["/venv/bin/python", demo], env=dict(os.environ, PYTHONPATH="/repo/src"), cwd="/repo", timeout=600)
            res["demo_with_change"] = rc1
            res["demo_clean"] = rc0
            res["demo_output"] = out1.strip()[-400:]
        res["checks"] = {}
        for pid in ids:
            env2 = dict(os.environ, SX_REPO_SRC=os.path.join(dst, "src"), SX_EVIDENCE_DIR=os.path.join(tmp, "evidence"), SX_REPLAY_DIR=os.path.join(VERIF, "scratch", "replays"))
            rc, out = run([os.path.join(VERIF, "check"), pid, "--tier", tier], env=env2, timeout=2400)
            lines = [l for l in out.splitlines() if l.startswith(("VIOLATION", "INCONCLUSIVE", "ENGINE-FAULT", "[" + pid))]
            res["checks"][pid] = {"exit": rc, "lines": [l[:300] for l in lines[:12]]}
    finally:
        shutil.rmtree(tmp, ignore_errors=True)
    print(json.dumps(res, indent=1))
    return 0


if __name__ == "__main__":
    sys.exit(main())
