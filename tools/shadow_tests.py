#!/usr/bin/env python3
"""Translator validation: run the repository's own test-suite against the SHADOW package (the real
source after SX's AST rewrite, executing on the shim builtins) in concrete mode.  Every test that
passes on the real package must pass here; a difference is a bug in the loader / shims."""
import os
import sys

V = os.path.dirname(os.path.dirname(os.path.abspath(__file__)))
sys.path.insert(0, V)


def main():
    from sx import loader

    sp = loader.ShadowPackage()
    root = sp.root_module()
    sys.modules["sansldap"] = root
    for sub in ("asn1", "schema", "_authentication", "_controls", "_filter", "_messages", "_session", "_version"):
        try:
            sys.modules[f"sansldap.{sub}"] = sp.module(sub)
        except ModuleNotFoundError:
            pass
    import pytest

    repo = os.path.dirname(loader.REPO_SRC)
    os.chdir(repo)
    return pytest.main(["-q", "-p", "no:cacheprovider", "-x", "--no-header", "tests"] + sys.argv[1:])


if __name__ == "__main__":
    sys.exit(main())
