#!/usr/bin/env python3
"""Writes /verif/MANIFEST.json from the table below (single source of truth for the claims)."""
import json, os

V = os.path.dirname(os.path.dirname(os.path.abspath(__file__)))
TITLES = {}
for line in open(os.path.join(V, "properties.jsonl")):
    p = json.loads(line)
    TITLES[p["id"]] = p["title"]

SX_NOTE = ("Trusted base: z3 (validity of each query), the SX proxy semantics for int/bytes/str/regex "
           "(validated on every explored path by re-running the solver's model on the unmodified package and comparing observations), "
           "the independent oracles under /verif/oracles and in the harness, CPython. Bounds are shapes: lengths/depths enumerated, contents symbolic; "
           "everything outside the listed bounds is not claimed.")

CLAIMS = {
    "C07": dict(
        text="Bounded symbolic execution of the real asn1 reader/writer: for each shape (octet count, content length threshold, nesting) every path of the code is executed once on symbolic values and each obligation (two's-complement value, minimality, base-128/base-256 header arithmetic, exact consumption, header vs an independent X.690 reference on every byte string up to the bound) is a z3 validity query; a SAT answer is replayed on the real package before it is reported.",
        ref="DESIGN.md 3/C07", technique="symbolic execution of the real source (SX proxies) + z3 validity queries against arithmetic specifications"),
}
CLAIMS["C05"] = dict(
    text="Bounded symbolic execution of LDAPClient/LDAPServer.receive: every byte string up to the bound (all octets symbolic), 2/3-octet symbolic windows at every offset of seed encodings of every message kind, every truncation, whole and cut deliveries, from every session pre-state. Per path: only a list or ProtocolError may come out; afterwards CLOSED, further input refused, and the attached notification strict-decodes with an independent RFC 4511 decoder to unbind/notice of disconnection.",
    ref="DESIGN.md 3/C05", technique="symbolic execution of the real receive path (SX) + z3; counterexamples replayed on the real package")
CLAIMS["C06"] = dict(
    text="Same exploration as C05 plus envelopes with symbolic interiors followed by a valid message; an independent framer of the outer TLV headers runs on the same symbolic bytes and the obligation 'messages returned == complete units delivered' is discharged by z3 on every error-free path.",
    ref="DESIGN.md 3/C06", technique="symbolic execution of the real receive path (SX) + independent TLV framer as oracle, z3 validity queries")
CLAIMS["C01"] = dict(
    text="Bounded symbolic execution of pack() and unpack_ldap_message(): message skeletons (kind x optionals x list lengths x filter trees x control forms) are enumerated, every int/bool/text/octet content is a solver variable; per path z3 proves decoded == original field by field, exact consumption against a symbolic sentinel, byte-equal re-encoding, the same bytes after a failed pack() of another message, and that the encoding follows a later change of the message.",
    ref="DESIGN.md 3/C01", technique="symbolic execution of the real encoder+decoder (SX) + z3 validity queries")
CLAIMS["C03"] = dict(
    text="The symbolic bytes produced by the real pack() are decoded by an independent strict RFC 4511/X.690 decoder (oracles/ref_ber.py) running on the same solver variables; every well-formedness condition and the equality of the recovered abstract message with the message's fields is a z3 validity query. Symmetric encoder/decoder mistakes are therefore visible.",
    ref="DESIGN.md 3/C03", technique="symbolic execution of the real encoder (SX) + independent reference decoder as oracle, z3 validity queries")
CLAIMS["C02"] = dict(
    text="One-step chunking lemma with every octet symbolic (session with residue R receiving D behaves exactly like a session without residue receiving R+D: messages, exception class, state, bookkeeping, residue), which by induction covers any number of cuts; plus streams of 1-3 messages with symbolic contents cut at every position (pairs in the thorough tier) compared with single delivery; plus the caller-overwrites-its-buffer aliasing probe with true view semantics.",
    ref="DESIGN.md 3/C02", technique="symbolic execution of the real receive path on two sessions (SX) + z3 outcome-equivalence queries")
CLAIMS["C04"] = dict(
    text="The canonical encoding of each skeleton (symbolic contents) is parsed into a generic TLV tree and re-encoded with the freedoms BER/RFC 4511 permit (long-form lengths per node and globally, TRUE as a symbolic non-zero octet, explicit DEFAULT values, one unrecognised trailing element with symbolic tag/content after each extensible SEQUENCE); z3 proves the library decodes every variant to the original message.",
    ref="DESIGN.md 3/C04", technique="symbolic execution of the real decoder on re-encoded variants (SX) + z3 validity queries")
CLAIMS["C08"] = dict(text='Inductive step on the real LDAPClient/LDAPServer objects (one public call with symbolic id / result code / drain amount from an arbitrary symbolic pre-state satisfying the representation invariant, which every real-mode replay reaches through public calls only) plus bounded model checking from fresh sessions: every call sequence of depth 2 incl. variants carrying a paged-results control (quick); depth 2+3 and depth 4 over the operation alphabet of the property (thorough); post-conditions come from an independent ghost model of the documented state machine and are z3 validity queries. Clauses checked here: state transition table, CLOSED absorbing (rejected, no bytes, no data accepted), bind refused while operations are outstanding, only bind traffic or terminations while BINDING, invariant preserved.', ref="DESIGN.md 3/C08-C12", technique="symbolic execution of real session calls from symbolic pre-states (one-step induction) + bounded model checking, z3 validity queries against a ghost state machine")
CLAIMS["C09"] = dict(text='Inductive step on the real LDAPClient/LDAPServer objects (one public call with symbolic id / result code / drain amount from an arbitrary symbolic pre-state satisfying the representation invariant, which every real-mode replay reaches through public calls only) plus bounded model checking from fresh sessions: every call sequence of depth 2 incl. variants carrying a paged-results control (quick); depth 2+3 and depth 4 over the operation alphabet of the property (thorough); post-conditions come from an independent ghost model of the documented state machine and are z3 validity queries. Clauses checked here: returned id = old counter >= 1, counter +1, id decoded (reference decoder) from the emitted bytes equals the returned id, acceptance iff the id is in progress, searches retired only by done, unknown/retired id or request-type message => ProtocolError + CLOSED.', ref="DESIGN.md 3/C08-C12", technique="symbolic execution of real session calls from symbolic pre-states (one-step induction) + bounded model checking, z3 validity queries against a ghost state machine")
CLAIMS["C10"] = dict(text='Inductive step on the real LDAPClient/LDAPServer objects (one public call with symbolic id / result code / drain amount from an arbitrary symbolic pre-state satisfying the representation invariant, which every real-mode replay reaches through public calls only) plus bounded model checking from fresh sessions: every call sequence of depth 2 incl. variants carrying a paged-results control (quick); depth 2+3 and depth 4 over the operation alphabet of the property (thorough); post-conditions come from an independent ghost model of the documented state machine and are z3 validity queries. Clauses checked here: a refused call leaves the outgoing stream untouched and raises only LDAPError; the server emits only for outstanding ids; final responses retire the request.', ref="DESIGN.md 3/C08-C12", technique="symbolic execution of real session calls from symbolic pre-states (one-step induction) + bounded model checking, z3 validity queries against a ghost state machine")
CLAIMS["C12"] = dict(text='Inductive step on the real LDAPClient/LDAPServer objects (one public call with symbolic id / result code / drain amount from an arbitrary symbolic pre-state satisfying the representation invariant, which every real-mode replay reaches through public calls only) plus bounded model checking from fresh sessions: every call sequence of depth 2 incl. variants carrying a paged-results control (quick); depth 2+3 and depth 4 over the operation alphabet of the property (thorough); post-conditions come from an independent ghost model of the documented state machine and are z3 validity queries. Clauses checked here: data_to_send(a) returns x with x + rest == before for every int a or None and changes nothing else; every other call only appends; a successful send contributes exactly its own message, a delivery or a failed send contributes nothing; by induction the drained concatenation equals the concatenation of the successful sends.', ref="DESIGN.md 3/C08-C12", technique="symbolic execution of real session calls from symbolic pre-states (one-step induction) + bounded model checking, z3 validity queries against a ghost state machine")
CLAIMS["C18"] = dict(
    text="Every regular expression the current tree compiles (captured at import and call time) is translated to sre's backtracking automaton; a z3 Fixedpoint (Datalog) query over the product automaton decides exponential ambiguity with no bound on the pump length, and a positive is confirmed by timing the attack string on the real re before it is reported. The hand-written filter scanner is executed symbolically on every string up to the bound with structural progress obligations (each recursive call consumes >= 1, nested calls of the same function get strictly shorter intervals, sibling consumption ranges are disjoint and ordered), from which the O(n^2) bound follows by an induction argued in DESIGN.md.",
    ref="DESIGN.md 1.3, 3/C18", technique="regex -> backtracking automaton -> z3 Datalog fixpoint (no length bound) + symbolic execution (SX) of the recursive-descent scanner", engine="RX+SX")
CLAIMS["C13"] = dict(
    text="Filter trees of enumerated shape with symbolic contents: attribute descriptions / matching rules range over ALL RFC 4512-valid strings of the given length (assumed through a regular-language membership formula), values over all octets. Symbolic execution of the real __str__ and from_string; z3 proves from_string(str(f)) == f and that str(f) lies in the RFC 4515 regular language of its shape (every special octet escaped); the same after scribbling over the first result, after rejected input, and after the caller changed the tree.",
    ref="DESIGN.md 3/C13", technique="symbolic execution of the real serializer+parser incl. their regexes (SX) + z3 validity queries; RFC language membership as one formula")
CLAIMS["C14"] = dict(
    text="Sentences generated from the RFC 4515 ABNF (every production, dn keyword in every case, escapes with symbolic hex digits of either case, raw UTF-8 of 2-4 octets, tolerated spaces) carry the tree the grammar denotes; z3 proves the real parser returns exactly that tree and that the SearchRequest bytes strict-decode (independent RFC 4511 decoder) to it.",
    ref="DESIGN.md 3/C14", technique="symbolic execution of the real parser and encoder on grammar sentences with symbolic holes (SX) + z3; generator-with-semantics and reference BER decoder as oracles")
CLAIMS["C15"] = dict(
    text="Every string up to the bound (every code point symbolic, lone surrogates included) and 2/3-character symbolic windows over grammar sentences go through the real from_string: only a filter or FilterSyntaxError with an in-range offset/length may come out; on acceptance every attribute description / matching rule is RFC 4512-valid (membership formula, layered so that pinned deviations keep separate signatures) and str(result) re-parses to an equal result. Plus an unbounded z3 string-theory query: L(library attribute pattern with Python's $) is included in RFC 4512.",
    ref="DESIGN.md 3/C15", technique="symbolic execution of the real parser on symbolic text (SX) + z3; z3 regex-theory language inclusion (no length bound)")
CLAIMS["C16"] = dict(
    text="Objects of the three description classes for a covering set of field-presence combinations with symbolic contents (description / extension text: 1..3 code points over ALL scalar values; OIDs and descriptors over all RFC 4512-valid strings of the given length; symbolic syntax length) go through the real __str__ and from_string (the description regexes are executed by a matcher that follows sre's priority order on symbolic characters); z3 proves from_string(str(d)) == d, also for a second parse after scribbling over the first result and for the text form after the caller changed the definition.",
    ref="DESIGN.md 3/C16", technique="symbolic execution of the real serializer+parser incl. their regexes (SX) + z3 validity queries")
CLAIMS["C17"] = dict(
    text="Sentences generated from the RFC 4512 ABNF of the three descriptions (single/parenthesised lists, 0..2 extensions, AD quoted SYNTAX, quoted-string pieces incl. \\27 \\5c \\5C and non-ASCII, every SP/WSP position varied) carry the object the grammar denotes; z3 proves the real parser returns equal fields. Totality: 2-character symbolic windows over the sentences yield a definition or ValueError on every path.",
    ref="DESIGN.md 3/C17", technique="symbolic execution of the real parser on grammar sentences with symbolic holes (SX) + z3; generator-with-semantics as oracle")
CLAIMS["C11"] = dict(
    text="Joint bounded model checking on the real LDAPClient/LDAPServer joined by two byte pipes: every schedule of 3 (quick) / 4 (thorough) actions out of 14 (client calls, matching-kind server responses incl. notice of disconnection, whole / one-octet / half deliveries in both directions), every schedule of 5 / 6 whole-delivery actions, and 15 scripted scenarios up to 10 actions, with symbolic result codes and payloads. z3 proves after every action: no exception but the designed terminations, every received message equals the next sent one, agreement on state and operations in progress whenever both pipes are empty. The one-step joint induction of DESIGN.md was not built; the claim is the BMC bound.",
    ref="DESIGN.md 3/C11", technique="symbolic execution of both real sessions along bounded schedules (joint BMC, SX) + z3 validity queries")
CLAIMS["C19"] = dict(
    text="Two real sessions run schedules of two calls with symbolic arguments alone (each in a freshly loaded copy of the library) and in all 6 interleavings (in a third copy); z3 proves every transcript entry (outcome, result, state, emitted bytes) equal. All 8 subsets of custom control / filter / credential registered on one session only: symbolic payloads decode to the custom type there and to the generic control / ProtocolError elsewhere; duplicates raise ValueError; the other session's choice lists are unchanged. Every history of 3 (thorough: 4) registrations / deliveries of two custom types on one session is judged by a ghost registry.",
    ref="DESIGN.md 3/C19", technique="symbolic execution of two real sessions in isolated vs interleaved order on fresh library copies (SX) + z3 transcript-equality queries")
PENDING = {}

def main():
    checks = []
    for pid in sorted(CLAIMS):
        c = CLAIMS[pid]
        checks.append({
            "property_id": pid,
            "quick_cmd": f"./check {pid} --tier quick",
            "thorough_cmd": f"./check {pid} --tier thorough",
            "evidence_file": f"/verif/evidence/{pid}.json",
            "replay_cmd_template": f"./check {pid} --replay {{path}}",
            "engine": c.get("engine", "SX"),
            "level_claimed": {"category": c.get("category", "model_checking"), "text": c["text"], "design_ref": c["ref"]},
            "level_note": c.get("note", SX_NOTE),
            "technique": c["technique"],
        })
    na = []
    for pid in sorted(TITLES):
        if pid not in CLAIMS:
            na.append({"property_id": pid, "reason": PENDING.get(pid, "check not built yet in this round (solver-based harness planned in DESIGN.md section 3); no claim is made")})
    m = {
        "version": 1,
        "setup_cmd": "sh tools/setup.sh",
        "hooks": {
            "guard": "SANSLDAP_VERIF",
            "enable": "no source hooks: the checks load /repo/src/sansldap into a shadow package at run time (sx/loader.py); nothing in /repo is instrumented",
            "baseline_off_cmd": "cd /repo && /venv/bin/python -m pytest -ra -q -p no:cacheprovider --timeout=900 --continue-on-collection-errors",
            "source_commits": [],
            "add_only": True,
        },
        "engines": [
            {"name": "SX", "path": "/verif/sx", "serves_properties": sorted(p for p in CLAIMS if "SX" in CLAIMS[p].get("engine", "SX")),
             "kind_free_text": "proxy-based symbolic executor over the real Python source, z3 back end, DFS by re-execution with a decision trail, replay of every model on the real package"},
            {"name": "RX", "path": "/verif/rx", "serves_properties": ["C18"],
             "kind_free_text": "sre parse tree -> Thompson automaton preserving backtracking alternatives -> z3 Fixedpoint (datalog) query for exponential degree of ambiguity; concrete timing replay of witnesses"},
        ],
        "checks": checks,
        "not_applicable": na,
        "notes": "exit codes: 0 held within bounds, 1 VIOLATION (replay-confirmed, not a listed known finding), 3 inconclusive (never success). Known findings: /verif/known_findings.json.",
    }
    with open(os.path.join(V, "MANIFEST.json"), "w") as fh:
        json.dump(m, fh, indent=1)
    print("claims:", sorted(CLAIMS), "not_applicable:", len(na))

if __name__ == "__main__":
    main()
