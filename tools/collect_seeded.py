#!/usr/bin/env python3
"""Copy the confirmed seeded changes from the sub-agents' worktrees into /verif/seeded/<id>/ with a
meta.json, and write /verif/seeded/README.md (which check catches which change)."""
import json
import os
import shutil
import sys

V = os.path.dirname(os.path.dirname(os.path.abspath(__file__)))
WT = "/tmp/wt"
MISSED_FIRST = {
    "C01-M1": "no skeleton had a present-but-empty value; added 'empty_*' skeletons (C01/C03/C04)",
    "C02-M1": "the one-step lemma does not see hidden per-session state and the quick tier only cut streams once; added all cut pairs over long/short two-message streams",
    "C02-M2": "streams were only delivered in the library's own minimal encoding; added the same streams re-encoded with long-form lengths (leading zero octets) so cuts fall inside length octets",
    "C04-M2": "trailing elements only carried context/private tags; added universal-tagged trailing elements where they cannot be mistaken for an absent OPTIONAL",
    "C05-M2": "pre-states were fixed histories without refused calls; added every pair of application calls (accepted or refused) before a delivery (the change was already caught by C08/C09's invariant)",
    "C06-M2": "needs three chunks; added every cut pair over two-message streams with per-chunk accounting",
    "C12-M1": "C12 had no clause for a failed send leaving bytes (C10 caught it); clause added",
    "C12-M2": "first caught for the wrong reason (the harness injected a bytearray into the private buffer); the harness now observes pending output through the public API and drain-focused sequences with several pending messages were added",
    "C15-M1": "needs an escaped backslash followed by hex digits inside a substring filter (8+ characters); C15 now also runs C14's grammar sentences with symbolic holes",
    "C17-M1": "needs an escaped backslash directly followed by '27'; added quoted-string patterns with an escape followed by two free characters",
    "C18-M2": "the retry re-parses a position after a failed attempt; added the obligation that no scanner function is called twice on the same position",
    "C19-M1": "transcripts were compared at the time of each call only; now every value returned earlier is compared again after the other session's later operations, and deliveries of a library-known control with/without value were added",
    # ---- second round (N): strengthening done after reading the sub-agents' reports, before or while evaluating
    "C01-N2": "pack() was only ever called on valid messages; added 'pack after a failed pack' units",
    "C04-N1": "trailing context tags were limited to 12..30; now every number 5..30 that the enclosing type does not define",
    "C05-N1": "responses were only delivered to clients and requests to servers; every seed is now also delivered to the other kind of session (symbolic windows included)",
    "C06-N2": "an exception other than ProtocolError ended the accounting silently; it now counts as 'neither returned nor protocol error'",
    "C09-N1": "deliveries carried one message each; added the same final response twice in one delivery",
    "C09-N2": "a non-search response carrying a search id was left unspecified; now: if accepted it must not retire the search",
    "C11-N1": "no scripted scenario had a bind after other traffic; added ops_then_bind / search_then_bind",
    "C11-N2": "added scenarios that keep using a session after a reassembled message ended exactly on a boundary (also caught by C02)",
    "C12-N2": "no send ever failed inside the encoder; added a request whose text cannot be encoded",
    "C13-N1": "hashing free symbolic text (cache key) made the symbolic run intractable; the engine now fails fast there and C13 has fully concrete units plus a scribble-then-reparse probe",
    "C13-N2": "added tens of thousands of rejected inputs before a valid parse (history independence)",
    "C14-N2": "raw UTF-8 only appeared in single-item sentences; added trees with multi-octet characters before later items",
    "C15-N1": "the regex matcher and the z3 regex translation did not model IGNORECASE; Unicode case folding (sre's tables) added to both",
    "C17-N1": "str.split() on whitespace was not modelled (inconclusive); added",
    "C18-N2": "a non-terminating decoder never came back to the engine; added a per-path watchdog with confirmation on the real package in a subprocess and termination units for receive()",
    "C19-N2": "custom types were only delivered whole; added delivery in two pieces",
    # ---- third round (P): evaluated blind first; these were missed
    "C10-P1": "no call ever carried a control; every send/receive operation now also runs with a paged-results control with a symbolic non-empty cookie ('@p' variants)",
    "C10-P2": "first reported by a clause that demanded more than C10 states (refusing a response whose kind does not match the request is allowed; corrected, see DESIGN 5.3); the real violation needs a search id that is no longer outstanding but still in the search registry - server pre-states with such stale ids were added to the inductive step",
    "C12-P1": "C12 had no clause tying a successful send to the stream (only C09/C10 decoded what a call appended); added: a successful send contributes exactly its own message",
    "C13-P1": "no and/or had two members of the same kind, so equal members were not expressible; added (symbolic contents make them equal on some paths) plus a concrete tree with repeated members",
    "C19-P1": "registration was only followed by deliveries, never preceded by one; added every history of 3 (thorough: 4) registrations / deliveries of two custom types on one session, judged by a ghost registry",
    "C19-P2": "same: a rejected duplicate was never followed by another registration",
    # ---- fourth round (Q).  Strengthened after reading the sub-agent's report, BEFORE the evaluation:
    "C05-Q1": "(before evaluation) no delivered integer was longer than a machine word; added deliveries whose id / result code / limits have thousands of octets (CPython refuses to print ints of > 4300 digits, so an error text can raise)",
    "C08-Q1": "(before evaluation) extended-operation names were the constants '1.2' and the notice OID; they are now 3 free characters over digits and dots, and `x in 'literal'` with a symbolic x is modelled",
    "C11-Q2": "(before evaluation) application calls had fixed arguments; added scripted scenarios with rich arguments (limits over 0..2^31-1, Unicode text, attributes, referrals) whose arrival is compared with the call arguments",
    "C12-Q2": "(before evaluation) a delivery was never required to leave the outgoing stream alone under C12 (only under C10); clause added",
    "C13-Q1": "(before evaluation) the tree was never changed between two str() calls; added: grow every member list, the text form must follow",
    "C16-Q2": "(before evaluation) same for definitions: append to every list / the extension dict, the text form must follow",
    "C15-Q1": "(before evaluation) added frames (free runs of characters in header / value / rule / nested positions) and degenerate concrete strings; it is not known whether the windows would have caught it",
    "C15-Q2": "(before evaluation) same: '(a::=x)' has 7 characters, beyond the quick whole-string bound of 5",
    "C17-Q1": "(before evaluation) no specification had a list-valued extension followed by another extension; every order of extension forms added",
    # missed in the blind evaluation:
    "C01-Q2": "inconclusive at first: bytes.decode('ascii') had no model; ascii / latin-1 codecs added to the symbolic text",
    "C09-Q2": "a refused request was not required to emit nothing under C09 (only under C10/C12); clause added: no id handed out => no bytes carrying one",
    "C10-Q1": "inconclusive at first: enumeration lookup by symbolic text had no model (and names were constants); now one path per member that can match, ValueError otherwise",
    "C10-Q2": "search entries carried no attribute values; they now carry one arbitrary octet, so that an error text built from the message is exercised with non-text content",
    "C14-Q1": "no sentence had a matching rule literally named 'dn' after the dn keyword; added (and C13 no longer excludes that rule name when the flag is set)",
    "C19-Q1": "result codes were symbolic 0..80 and the engine never stores symbolic keys in process-wide tables; added interleavings with concrete unknown codes that collide modulo 2^32",
    # ---- fifth round (R): evaluated blind (except the three marked)
    "C03-R1": "names were symbolic text, never the library's own str-enum members; skeletons with ExtendedOperations members as names added",
    "C05-R1": "no delivered text was long; added long peer-controlled text with characters of 1-4 octets at every phase, to both kinds of session",
    "C07-R1": "the reader was only fed bytes; the same octets now also go through bytearray and memoryviews of unsigned / signed / char items",
    "C08-R2": "no server send ever failed inside the encoder; added (nothing emitted, nothing retired, state unchanged)",
    "C09-R2": "no delivery held more than a few messages, and replays ran under the engine's raised recursion limit; added deliveries of thousands of messages and the usual recursion limit for every run of the genuine package",
    "C11-R1": "the harness flushed after every call, so nothing was ever queued at unbind; added applications that flush lazily / partially",
    "C11-R2": "the filter argument was never passed; the rich search now chooses among empty and/or, not, equality",
    "C13-R2": "timed out at first (dictionary lookups keyed by symbolic octets inside urllib); hashing many symbolic octets now fails fast, urllib is run in hunt mode, and concrete values that look like other escape syntaxes were added (the trigger needs 4 octets, beyond the quick bound of 3)",
    "C15-R1": "inconclusive at first: bytes.fromhex on symbolic text had no model; added",
    "C16-R1": "extension names never contained the prefix again; added names with inner 'x-' / 'X-'",
    "C14-R2": "(added after reading the report) a value with dozens of escapes, in a long flat sentence",
    "C16-R2": "(added after reading the report) thousands of list members / extension values / extensions",
    "C17-R2": "(added after reading the report) same, as a grammar sentence",
    # ---- sixth round (S): one change per property for ten properties, evaluated blind; these two were missed
    "C08-S1": "session operations delivered every message whole (the chunked unbind was visible to C02 only as a difference in outcome kind); every receive operation now also exists as a delivery in two pieces with a symbolic cut ('@s' variants, inductive step and BMC depth 2) and must obey the same rules as a whole delivery",
    "C19-S1": "the two sessions of a schedule only ever registered the same custom type (or one of them none); added schedules in which they register different custom controls and each decodes the other's type (a decoder cache keyed by OID and number of registrations is shared between them)",
    "C12-S1": "no more than a few dozen octets were ever pending; added sequences with a message of more than ten thousand octets pending that is drained in pieces on and around thresholds (0, 1 KiB, 4 KiB, 6000, each + 0..2 symbolic) - the change compacts its buffer after 4096 consumed octets and keeps a stale offset",
    "C11-S1": "the joint runs only cut deliveries in halves or single octets (C02 and C06 reported the same kind of change through their own cut enumeration); added two scenarios with a long and a short message in the pipe delivered in three chunks whose two cut positions are solver variables",
    "C18-R2": "missed at first (the engine had no cost model for big-integer arithmetic); added an engine cost obligation - a left shift by an input-chosen amount that the path condition lets exceed 2**20 bits ends the path, the witness is confirmed on the real package in a subprocess under a 1.5 GiB address-space limit - and C18 units that append an element with a six-octet tag number to every constructed value of four messages",
    "C19-M2": "duplicate registration was only tried with the same class; now a different class reusing a custom or built-in id must be rejected",
}


def main():
    out_dir = os.path.join(V, "seeded")
    os.makedirs(out_dir, exist_ok=True)
    rows = []
    rounds = [("/tmp/wt", "mut", "M"), ("/tmp/wt2", "mut2", "N"), ("/tmp/wt3", "mut3", "P"), ("/tmp/wt5", "mut4", "Q"), ("/tmp/wt6", "mut5", "R"), ("/tmp/wt7", "mut6", "S")]
    for pid in [f"C{i:02d}" for i in range(1, 20)]:
      for WTd, resd, letter in rounds:
        for k in (1, 2):
            src = os.path.join(WTd, pid, f"MUTANT{k}")
            resf = os.path.join(V, "scratch", resd, f"{pid}.{k}.json")
            mid = f"{pid}-{letter}{k}"
            if not os.path.exists(os.path.join(src, "patch.diff")) and os.path.exists(os.path.join(out_dir, mid, "meta.json")):
                m = json.load(open(os.path.join(out_dir, mid, "meta.json")))
                sg = [v for c in m["checks"].values() for v in c["violations"]]
                rows.append((mid, ", ".join(m["caught_by"]) or "MISSED", "; ".join(sg[:2])[:150], m.get("strengthening") or ""))
                continue
            if not os.path.exists(os.path.join(src, "patch.diff")) or not os.path.exists(resf):
                continue
            try:
                res = json.load(open(resf))
            except Exception:
                continue
            ok = res.get("tests_pass_with_change") and res.get("demo_with_change") not in (0, None) and res.get("demo_clean") == 0
            if not ok:
                rows.append((mid, "NOT KEPT (could not confirm: tests/demo)", "", ""))
                continue
            dst = os.path.join(out_dir, mid)
            os.makedirs(dst, exist_ok=True)
            for f in ("patch.diff", "demo.py", "notes.md"):
                if os.path.exists(os.path.join(src, f)):
                    shutil.copy(os.path.join(src, f), os.path.join(dst, f))
            notes = open(os.path.join(src, "notes.md")).read() if os.path.exists(os.path.join(src, "notes.md")) else ""
            chk = res.get("checks", {})
            caught = {p: c for p, c in chk.items() if c.get("exit") == 1}
            sigs = []
            for p, c in caught.items():
                for l in c.get("lines", []):
                    if l.startswith("VIOLATION"):
                        sigs.append(l.split("[", 1)[-1].rstrip("]"))
            meta = {
                "id": mid,
                "property": pid,
                "breaks": "see notes.md (written by the independent sub-agent that seeded the change)",
                "needs_to_manifest": _needs(notes),
                "confirmed": {
                    "existing_test_suite_passes_with_change": bool(res.get("tests_pass_with_change")),
                    "tests_tail": res.get("tests_tail"),
                    "demo_exit_with_change": res.get("demo_with_change"),
                    "demo_exit_clean_tree": res.get("demo_clean"),
                },
                "what_was_run": [
                    "scratch copy of /repo + `patch -p1 < patch.diff`",
                    "PYTHONPATH=<copy>/src /venv/bin/python -m pytest -q -p no:cacheprovider -x tests",
                    "PYTHONPATH=<copy>/src /venv/bin/python demo.py   (and the same on the clean /repo/src)",
                    f"SX_REPO_SRC=<copy>/src ./check {pid} --tier quick   (tools/eval_mutant.py; evidence and replays redirected)",
                ],
                "checks": {p: {"exit": c.get("exit"), "violations": [l.split('[', 1)[-1].rstrip(']') for l in c.get("lines", []) if l.startswith("VIOLATION")]} for p, c in chk.items()},
                "caught_by": sorted(caught),
                "missed_in_first_round": mid in MISSED_FIRST,
                "strengthening": MISSED_FIRST.get(mid),
            }
            with open(os.path.join(dst, "meta.json"), "w") as fh:
                json.dump(meta, fh, indent=1)
            rows.append((mid, ", ".join(sorted(caught)) or "MISSED", "; ".join(sigs[:2])[:150], MISSED_FIRST.get(mid, "")))
    with open(os.path.join(out_dir, "README.md"), "w") as fh:
        fh.write("# Seeded changes\n\nEach directory holds a change to jborean93/sansldap written by an independent sub-agent that was given only the\ntext of one property and a scratch worktree (nothing from /verif): `patch.diff`, `demo.py` (exits 1 with the change, 0 without),\n`notes.md` (the sub-agent's description) and `meta.json` (what I confirmed and which checks report it).\nAll changes keep the existing 413 tests green.\n\n")
        fh.write("| id | caught by (quick tier) | signature(s) | missed at first? what was strengthened |\n|---|---|---|---|\n")
        for r in rows:
            fh.write("| " + " | ".join(x.replace("|", "\\|") for x in r) + " |\n")
    print(f"{len(rows)} rows")
    for r in rows:
        print(r[0], "->", r[1])


def _needs(notes):
    lines = [l.strip() for l in notes.splitlines() if l.strip()]
    for i, l in enumerate(lines):
        if "manifest" in l.lower() or "needs" in l.lower() or "trigger" in l.lower():
            return " ".join(lines[i : i + 3])[:600]
    return " ".join(lines[:4])[:600]


if __name__ == "__main__":
    sys.exit(main())
