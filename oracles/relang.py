"""Regular-language membership of a fixed-length (possibly symbolic) string as ONE formula.

`member(ctx, s, pattern)` parses `pattern` (Python regex syntax, used here only as a notation for
grammars written from the RFCs) and returns a bool / SBool stating that the whole of `s` is in the
language.  No backtracking, no forking: a dynamic program over (node, i, j) builds the z3 term.
Works on real str/bytes too (then evaluates concretely through the same code).
"""
from __future__ import annotations

import functools

try:
    from re import _parser as sre_parse, _constants as sc
except ImportError:  # pragma: no cover
    import sre_parse, sre_constants as sc


class _N:
    """persistent node (stable identity for memo keys)"""

    __slots__ = ("op", "av", "subs")

    def __init__(self, op, av, subs):
        self.op = op
        self.av = av
        self.subs = subs  # list of sequences (each a tuple of _N)


def _conv_seq(seq):
    return tuple(_conv(n) for n in seq)


def _conv(node):
    op, av = node
    if op is sc.SUBPATTERN:
        return _N(op, None, [_conv_seq(av[3])])
    if op is sc.BRANCH:
        return _N(op, None, [_conv_seq(a) for a in av[1]])
    if op in (sc.MAX_REPEAT, sc.MIN_REPEAT):
        return _N(op, (av[0], av[1]), [_conv_seq(av[2])])
    return _N(op, av, [])


@functools.lru_cache(maxsize=None)
def _tree(pattern):
    return _conv_seq(sre_parse.parse(pattern))


def _items(ctx, s):
    if isinstance(s, (bytes, bytearray)):
        return list(s)
    if isinstance(s, str):
        return [ord(c) for c in s]
    if ctx.mode == "sym":
        from sx import values as V, text as T

        if isinstance(s, T.SStr):
            return [c if isinstance(c, int) else V.celem(c) for c in s.items]
        return [c if isinstance(c, int) else V.elem(c) for c in s._items()]
    raise TypeError(type(s))


def member(ctx, s, pattern):
    items = _items(ctx, s)
    n = len(items)
    tree = _tree(pattern)
    memo = {}

    def cls(c, av):
        neg = False
        conds = []
        for op, a in av:
            if op is sc.NEGATE:
                neg = True
            elif op is sc.LITERAL:
                conds.append(c == a)
            elif op is sc.RANGE:
                conds.append(ctx.all(c >= a[0], c <= a[1]))
            else:
                raise NotImplementedError(f"class item {op}")
        r = ctx.any(*conds) if conds else False
        return ctx.neg(r) if neg else r

    def seq(nodes, k, i, j):
        """nodes[k:] matches items[i:j] exactly"""
        key = (id(nodes), k, i, j)
        if key in memo:
            return memo[key]
        if k == len(nodes):
            r = i == j
        elif k == len(nodes) - 1:
            r = one(nodes[k], i, j)
        else:
            alts = []
            for m in range(i, j + 1):
                a = one(nodes[k], i, m)
                if a is False:
                    continue
                b = seq(nodes, k + 1, m, j)
                if b is False:
                    continue
                alts.append(ctx.all(a, b))
            r = ctx.any(*alts) if alts else False
        memo[key] = r
        return r

    def one(node, i, j):
        key = (id(node), i, j)
        if key in memo:
            return memo[key]
        op, av = node.op, node.av
        if op is sc.LITERAL:
            r = (items[i] == av) if j == i + 1 else False
        elif op is sc.NOT_LITERAL:
            r = ctx.neg(items[i] == av) if j == i + 1 else False
        elif op is sc.ANY:
            r = ctx.neg(items[i] == 10) if j == i + 1 else False
        elif op is sc.IN:
            r = cls(items[i], av) if j == i + 1 else False
        elif op is sc.SUBPATTERN:
            r = seq(node.subs[0], 0, i, j)
        elif op is sc.BRANCH:
            r = ctx.any(*[seq(alt, 0, i, j) for alt in node.subs])
        elif op in (sc.MAX_REPEAT, sc.MIN_REPEAT):
            lo, hi = av
            r = rep(node.subs[0], lo, None if hi is sc.MAXREPEAT else hi, i, j)
        elif op is sc.AT:
            r = i == j  # anchors: whole-string membership is what we compute anyway
        else:
            raise NotImplementedError(f"regex op {op}")
        memo[key] = r
        return r

    def rep(sub, lo, hi, i, j):
        """sub repeated between lo and hi times matches items[i:j]; iterations consume >= 1 char
        (an empty iteration never adds strings to the language)"""
        key = ("rep", id(sub), lo, hi, i, j)
        if key in memo:
            return memo[key]
        alts = []
        if lo == 0 and i == j:
            alts.append(True)
        elif lo > 0 and i == j:
            # all remaining mandatory iterations must match empty
            e = seq(sub, 0, i, i)
            alts.append(e)
        if hi is None or hi > 0:
            for m in range(i + 1, j + 1):
                a = seq(sub, 0, i, m)
                if a is False:
                    continue
                b = rep(sub, max(0, lo - 1), None if hi is None else hi - 1, m, j)
                if b is False:
                    continue
                alts.append(ctx.all(a, b))
        r = ctx.any(*alts) if alts else False
        memo[key] = r
        return r

    return seq(tree, 0, 0, n)


# ---------------------------------------------------------------------- RFC 4512 / 4515 notations
KEYCHAR = "[A-Za-z0-9-]"
DESCR = f"[A-Za-z]{KEYCHAR}*"
NUMBER = "(?:0|[1-9][0-9]*)"
NUMERICOID = rf"{NUMBER}(?:\.{NUMBER})+"
OID = f"(?:{DESCR}|{NUMERICOID})"
OPTIONS = f"(?:;{KEYCHAR}+)*"
ATTRDESC = f"{OID}{OPTIONS}"  # RFC 4512 2.5: attributedescription = attributetype options
HEX = "[0-9A-Fa-f]"
# RFC 4515: value chars are any octet except NUL ( ) * \ ; those are written \xx
ASSERTION_VALUE = rf"(?:[^\x00()*\\]|\\{HEX}{HEX})*"
