"""Reference BER / RFC 4511 codec, written from the RFCs (X.690 section 8, RFC 4511 section 4 and
5.1, RFC 2696), independent of the library.  Plain Python over `data[i]`, `len`, slices and
arithmetic so that it runs both on real bytes and on SX proxies; every well-formedness condition
goes through `need()`: a decidable failure raises RefError, a symbolic one becomes a proof
obligation of the calling check (`ctx.require`).

Abstract messages are nested tuples/dicts of ints, bools and octet strings (text stays UTF-8 octets).
"""
from __future__ import annotations

UNIVERSAL, APPLICATION, CONTEXT, PRIVATE = 0, 1, 2, 3


class RefError(Exception):
    pass


class Incomplete(Exception):
    pass


class Ref:
    def __init__(self, ctx, label="ref"):
        self.ctx = ctx
        self.label = label
        self.lenient_unbind = False
        self.saw_constructed_unbind = False

    # ------------------------------------------------------------------ plumbing
    def need(self, cond, why):
        if cond is True:
            return
        if cond is False:
            raise RefError(why)
        if self.ctx.mode == "real":
            if not cond:
                raise RefError(why)
            return
        self.ctx.require(cond, f"{self.label}:{why}")

    def branch(self, cond):
        """decide a condition (forks in sym mode)"""
        if cond is True or cond is False:
            return cond
        return self.ctx.is_true(cond)

    # ------------------------------------------------------------------ TLV layer (X.690 8.1)
    def header(self, data, pos, end):
        """-> (cls, constructed(bool/SBool), number, content_start, content_end); strict definite form"""
        if pos >= end:
            raise Incomplete()
        b0 = data[pos]
        cls = b0 // 64
        cons = (b0 // 32) % 2
        num = b0 % 32
        i = pos + 1
        if self.branch(num == 31):
            num = 0
            first = True
            while True:
                if i >= end:
                    raise Incomplete()
                o = data[i]
                i += 1
                if first:
                    self.need(o != 128, "high-tag-number form not minimal (leading 0x80)")
                    first = False
                num = num * 128 + o % 128
                if self.branch(o < 128):
                    break
            self.need(num >= 31, "high-tag-number form used for a number below 31")
        if i >= end:
            raise Incomplete()
        l0 = data[i]
        i += 1
        if self.branch(l0 < 128):
            length = l0
        else:
            self.need(l0 != 128, "indefinite length (forbidden by RFC 4511 5.1)")
            self.need(l0 != 255, "reserved length octet 0xFF")
            k = l0 - 128
            length = 0
            j = 0
            while self.branch(j < k):
                if i >= end:
                    raise Incomplete()
                length = length * 256 + data[i]
                i += 1
                j += 1
        if self.branch(i + length > end):
            raise Incomplete()
        if not isinstance(length, int):
            length = self._conc(length)
        return cls, cons, num, i, i + length

    def _conc(self, v):
        # content_end must be a concrete index; pin it by forking over the possible values
        return int(v)

    def expect(self, data, pos, end, cls, cons, num, what):
        c, k, n, s, e = self.header(data, pos, end)
        self.need(c == cls, f"{what}: tag class")
        self.need(k == (1 if cons else 0), f"{what}: primitive/constructed form")
        self.need(n == num, f"{what}: tag number")
        return s, e

    def peek_is(self, data, pos, end, cls, num):
        """is the next element tagged (cls, num)? (decides; form not examined)"""
        if pos >= end:
            return False
        c, k, n, s, e = self.header(data, pos, end)
        return self.branch(self.ctx.all(c == cls, n == num))

    # ------------------------------------------------------------------ primitive types
    def integer(self, data, pos, end, what, cls=UNIVERSAL, num=2):
        s, e = self.expect(data, pos, end, cls, False, num, what)
        n = e - s
        self.need(n >= 1, f"{what}: INTEGER with no content octets")
        if n > 1:
            pad0 = self.ctx.all(data[s] == 0, data[s + 1] < 128)
            padf = self.ctx.all(data[s] == 255, data[s + 1] >= 128)
            self.need(self.ctx.neg(pad0), f"{what}: INTEGER not minimal (leading 00)")
            self.need(self.ctx.neg(padf), f"{what}: INTEGER not minimal (leading FF)")
        v = 0
        for i in range(s, e):
            v = v * 256 + data[i]
        v = self.ctx.ite(data[s] >= 128, v - (1 << (8 * n)), v)
        return v, e

    def enumerated(self, data, pos, end, what):
        return self.integer(data, pos, end, what, UNIVERSAL, 10)

    def boolean(self, data, pos, end, what, cls=UNIVERSAL, num=1):
        s, e = self.expect(data, pos, end, cls, False, num, what)
        self.need(e - s == 1, f"{what}: BOOLEAN content must be one octet")
        b = data[s]
        self.need(self.ctx.any(b == 0, b == 255), f"{what}: BOOLEAN must be 00 or FF (RFC 4511 5.1)")
        return b == 255, e

    def octets(self, data, pos, end, what, cls=UNIVERSAL, num=4):
        s, e = self.expect(data, pos, end, cls, False, num, what)
        return data[s:e], e

    def seq(self, data, pos, end, what, cls=UNIVERSAL, num=16):
        return self.expect(data, pos, end, cls, True, num, what)

    # ------------------------------------------------------------------ RFC 4511
    def message(self, data):
        """decode exactly one LDAPMessage occupying all of `data`"""
        end = len(data)
        s, e = self.seq(data, 0, end, "LDAPMessage")
        self.need(e == end, "LDAPMessage: trailing octets after the envelope")
        mid, p = self.integer(data, s, e, "messageID")
        c, k, n, cs, ce = self.header(data, p, e)
        self.need(c == APPLICATION, "protocolOp: class must be APPLICATION")
        num = n if isinstance(n, int) else int(n)
        ops = {
            0: self.bind_request,
            1: self.bind_response,
            2: self.unbind_request,
            3: self.search_request,
            4: self.search_entry,
            5: self.search_done,
            19: self.search_reference,
            23: self.extended_request,
            24: self.extended_response,
        }
        if num not in ops:
            raise RefError(f"protocolOp [APPLICATION {num}] not one of the nine supported operations")
        if num == 2:
            if self.lenient_unbind and k == 1:
                self.saw_constructed_unbind = True
            else:
                self.need(k == 0, "UnbindRequest: [APPLICATION 2] NULL must be primitive")
        else:
            self.need(k == 1, "protocolOp: SEQUENCE types must be constructed")
        op = ops[num](data, cs, ce)
        p = ce
        controls = []
        if p < e:
            s2, e2 = self.seq(data, p, e, "controls", CONTEXT, 0)
            q = s2
            while q < e2:
                ctl, q = self.control(data, q, e2)
                controls.append(ctl)
            p = e2
        self.need(p == e, "LDAPMessage: unexpected element after controls")
        return {"id": mid, "op": op, "controls": controls}

    def control(self, data, pos, end):
        s, e = self.seq(data, pos, end, "Control")
        typ, p = self.octets(data, s, e, "controlType")
        crit = False
        if self.peek_is(data, p, e, UNIVERSAL, 1):
            crit, p = self.boolean(data, p, e, "criticality")
            self.need(crit, "criticality FALSE is the DEFAULT and must be omitted (RFC 4511 5.1)")
        val = None
        if p < e:
            val, p = self.octets(data, p, e, "controlValue")
        self.need(p == e, "Control: trailing element")
        return {"type": typ, "critical": crit, "value": val}, e

    def ldap_result(self, data, pos, end):
        code, p = self.enumerated(data, pos, end, "resultCode")
        mdn, p = self.octets(data, p, end, "matchedDN")
        diag, p = self.octets(data, p, end, "diagnosticMessage")
        ref = None
        if self.peek_is(data, p, end, CONTEXT, 3):
            s, e = self.seq(data, p, end, "referral", CONTEXT, 3)
            ref = []
            q = s
            while q < e:
                u, q = self.octets(data, q, e, "referral.uri")
                ref.append(u)
            p = e
        return {"code": code, "matched_dn": mdn, "diag": diag, "referral": ref}, p

    def bind_request(self, data, s, e):
        ver, p = self.integer(data, s, e, "version")
        name, p = self.octets(data, p, e, "name")
        c, k, n, cs, ce = self.header(data, p, e)
        self.need(c == CONTEXT, "authentication: class")
        num = n if isinstance(n, int) else int(n)
        if num == 0:
            self.need(k == 0, "simple: primitive OCTET STRING")
            auth = ("simple", data[cs:ce])
        elif num == 3:
            self.need(k == 1, "sasl: constructed")
            mech, q = self.octets(data, cs, ce, "mechanism")
            cred = None
            if q < ce:
                cred, q = self.octets(data, q, ce, "credentials")
            self.need(q == ce, "SaslCredentials: trailing element")
            auth = ("sasl", mech, cred)
        else:
            auth = ("other", num, data[cs:ce])
        self.need(ce == e, "BindRequest: trailing element")
        return ("bindRequest", {"version": ver, "name": name, "auth": auth})

    def bind_response(self, data, s, e):
        res, p = self.ldap_result(data, s, e)
        creds = None
        if p < e:
            creds, p = self.octets(data, p, e, "serverSaslCreds", CONTEXT, 7)
        self.need(p == e, "BindResponse: trailing element")
        return ("bindResponse", {"result": res, "sasl_creds": creds})

    def unbind_request(self, data, s, e):
        self.need(s == e, "UnbindRequest: NULL has no content")
        return ("unbindRequest", {})

    def search_request(self, data, s, e):
        base, p = self.octets(data, s, e, "baseObject")
        scope, p = self.enumerated(data, p, e, "scope")
        deref, p = self.enumerated(data, p, e, "derefAliases")
        size, p = self.integer(data, p, e, "sizeLimit")
        tl, p = self.integer(data, p, e, "timeLimit")
        to, p = self.boolean(data, p, e, "typesOnly")
        flt, p = self.filter(data, p, e)
        s2, e2 = self.seq(data, p, e, "attributes")
        attrs = []
        q = s2
        while q < e2:
            a, q = self.octets(data, q, e2, "attributes.selector")
            attrs.append(a)
        self.need(e2 == e, "SearchRequest: trailing element")
        return (
            "searchRequest",
            {"base": base, "scope": scope, "deref": deref, "size": size, "time": tl, "types_only": to, "filter": flt, "attributes": attrs},
        )

    def filter(self, data, pos, end):
        c, k, n, cs, ce = self.header(data, pos, end)
        self.need(c == CONTEXT, "Filter: class")
        num = n if isinstance(n, int) else int(n)
        if num in (0, 1):
            self.need(k == 1, "and/or: constructed")
            subs = []
            q = cs
            while q < ce:
                f, q = self.filter(data, q, ce)
                subs.append(f)
            return ("and" if num == 0 else "or", subs), ce
        if num == 2:
            self.need(k == 1, "not: constructed (explicit tag)")
            f, q = self.filter(data, cs, ce)
            self.need(q == ce, "not: exactly one filter")
            return ("not", f), ce
        if num in (3, 5, 6, 8):
            self.need(k == 1, "AttributeValueAssertion: constructed")
            a, q = self.octets(data, cs, ce, "attributeDesc")
            v, q = self.octets(data, q, ce, "assertionValue")
            self.need(q == ce, "AttributeValueAssertion: trailing element")
            return ({3: "eq", 5: "ge", 6: "le", 8: "approx"}[num], a, v), ce
        if num == 4:
            self.need(k == 1, "substrings: constructed")
            a, q = self.octets(data, cs, ce, "substrings.type")
            s2, e2 = self.seq(data, q, ce, "substrings.substrings")
            parts = []
            r = s2
            while r < e2:
                c2, k2, n2, s3, e3 = self.header(data, r, e2)
                self.need(c2 == CONTEXT, "substring: class")
                self.need(k2 == 0, "substring: primitive")
                n2 = n2 if isinstance(n2, int) else int(n2)
                if n2 not in (0, 1, 2):
                    raise RefError("substring: choice must be initial/any/final")
                parts.append((("initial", "any", "final")[n2], data[s3:e3]))
                r = e3
            self.need(e2 == ce, "SubstringFilter: trailing element")
            return ("substrings", a, parts), ce
        if num == 7:
            self.need(k == 0, "present: primitive")
            return ("present", data[cs:ce]), ce
        if num == 9:
            self.need(k == 1, "extensibleMatch: constructed")
            q = cs
            rule = typ = None
            if self.peek_is(data, q, ce, CONTEXT, 1):
                rule, q = self.octets(data, q, ce, "matchingRule", CONTEXT, 1)
            if self.peek_is(data, q, ce, CONTEXT, 2):
                typ, q = self.octets(data, q, ce, "type", CONTEXT, 2)
            val, q = self.octets(data, q, ce, "matchValue", CONTEXT, 3)
            dn = False
            if q < ce:
                dn, q = self.boolean(data, q, ce, "dnAttributes", CONTEXT, 4)
                self.need(dn, "dnAttributes FALSE is the DEFAULT and must be omitted (RFC 4511 5.1)")
            self.need(q == ce, "MatchingRuleAssertion: trailing element")
            return ("ext", rule, typ, val, dn), ce
        return ("other", num, data[cs:ce]), ce

    def search_entry(self, data, s, e):
        name, p = self.octets(data, s, e, "objectName")
        s2, e2 = self.seq(data, p, e, "attributes")
        attrs = []
        q = s2
        while q < e2:
            s3, e3 = self.seq(data, q, e2, "PartialAttribute")
            t, r = self.octets(data, s3, e3, "type")
            s4, e4 = self.seq(data, r, e3, "vals", UNIVERSAL, 17)
            vals = []
            w = s4
            while w < e4:
                v, w = self.octets(data, w, e4, "value")
                vals.append(v)
            self.need(e4 == e3, "PartialAttribute: trailing element")
            attrs.append((t, vals))
            q = e3
        self.need(e2 == e, "SearchResultEntry: trailing element")
        return ("searchResEntry", {"name": name, "attributes": attrs})

    def search_done(self, data, s, e):
        res, p = self.ldap_result(data, s, e)
        self.need(p == e, "SearchResultDone: trailing element")
        return ("searchResDone", {"result": res})

    def search_reference(self, data, s, e):
        uris = []
        q = s
        while q < e:
            u, q = self.octets(data, q, e, "uri")
            uris.append(u)
        return ("searchResRef", {"uris": uris})

    def extended_request(self, data, s, e):
        name, p = self.octets(data, s, e, "requestName", CONTEXT, 0)
        val = None
        if p < e:
            val, p = self.octets(data, p, e, "requestValue", CONTEXT, 1)
        self.need(p == e, "ExtendedRequest: trailing element")
        return ("extendedReq", {"name": name, "value": val})

    def extended_response(self, data, s, e):
        res, p = self.ldap_result(data, s, e)
        name = val = None
        if self.peek_is(data, p, e, CONTEXT, 10):
            name, p = self.octets(data, p, e, "responseName", CONTEXT, 10)
        if p < e:
            val, p = self.octets(data, p, e, "responseValue", CONTEXT, 11)
        self.need(p == e, "ExtendedResponse: trailing element")
        return ("extendedResp", {"result": res, "name": name, "value": val})

    # RFC 2696
    def paged_value(self, data):
        s, e = self.seq(data, 0, len(data), "realSearchControlValue")
        self.need(e == len(data), "realSearchControlValue: trailing octets")
        size, p = self.integer(data, s, e, "size")
        cookie, p = self.octets(data, p, e, "cookie")
        self.need(p == e, "realSearchControlValue: trailing element")
        return size, cookie


# ---------------------------------------------------------------------- tolerant outer framer (C06)
def frame(ctx, data):
    """Count complete top-level TLVs in `data` (outer identifier+length octets only).
    -> (complete_units, residue_start, status) with status 'ok' | 'bad-header'"""
    r = Ref(ctx, "frame")
    n = len(data)
    pos = 0
    count = 0
    while pos < n:
        try:
            cls, cons, num, s, e = _loose_header(r, data, pos, n)
        except Incomplete:
            return count, pos, "ok"
        except RefError:
            return count, pos, "bad-header"
        count += 1
        pos = e
    return count, pos, "ok"


def _loose_header(r, data, pos, end):
    """identifier and definite length octets; no minimality demands"""
    if pos >= end:
        raise Incomplete()
    b0 = data[pos]
    i = pos + 1
    if r.branch(b0 % 32 == 31):
        while True:
            if i >= end:
                raise Incomplete()
            o = data[i]
            i += 1
            if r.branch(o < 128):
                break
    if i >= end:
        raise Incomplete()
    l0 = data[i]
    i += 1
    if r.branch(l0 < 128):
        length = l0
    else:
        if r.branch(l0 == 128):
            raise RefError("indefinite")
        k = l0 - 128
        length = 0
        j = 0
        while r.branch(j < k):
            if i >= end:
                raise Incomplete()
            length = length * 256 + data[i]
            i += 1
            j += 1
    if r.branch(i + length > end):
        raise Incomplete()
    if not isinstance(length, int):
        length = int(length)
    return b0 // 64, (b0 // 32) % 2, b0 % 32, i, i + length


# ---------------------------------------------------------------------- library object -> abstract
def utf8(ctx, s):
    return s.encode("utf-8")


def abstract_of(ctx, msg):
    """Abstract RFC 4511 value of a library message object (reads dataclass fields only)."""
    name = type(msg).__name__
    controls = [abstract_control(ctx, c) for c in msg.controls]

    def res(r):
        return {
            "code": r.result_code.value,
            "matched_dn": utf8(ctx, r.matched_dn),
            "diag": utf8(ctx, r.diagnostics_message),
            "referral": None if r.referrals is None else [utf8(ctx, u) for u in r.referrals],
        }

    if name == "BindRequest":
        a = msg.authentication
        an = type(a).__name__
        if an == "SimpleCredential":
            auth = ("simple", utf8(ctx, a.password))
        elif an == "SaslCredential":
            auth = ("sasl", utf8(ctx, a.mechanism), a.credentials)
        else:
            auth = ("other", a.auth_id, None)
        op = ("bindRequest", {"version": msg.version, "name": utf8(ctx, msg.name), "auth": auth})
    elif name == "BindResponse":
        op = ("bindResponse", {"result": res(msg.result), "sasl_creds": msg.server_sasl_creds})
    elif name == "UnbindRequest":
        op = ("unbindRequest", {})
    elif name == "SearchRequest":
        op = (
            "searchRequest",
            {
                "base": utf8(ctx, msg.base_object),
                "scope": msg.scope.value,
                "deref": msg.deref_aliases.value,
                "size": msg.size_limit,
                "time": msg.time_limit,
                "types_only": msg.types_only,
                "filter": abstract_filter(ctx, msg.filter),
                "attributes": [utf8(ctx, a) for a in msg.attributes],
            },
        )
    elif name == "SearchResultEntry":
        op = (
            "searchResEntry",
            {"name": utf8(ctx, msg.object_name), "attributes": [(utf8(ctx, a.name), list(a.values)) for a in msg.attributes]},
        )
    elif name == "SearchResultDone":
        op = ("searchResDone", {"result": res(msg.result)})
    elif name == "SearchResultReference":
        op = ("searchResRef", {"uris": [utf8(ctx, u) for u in msg.uris]})
    elif name == "ExtendedRequest":
        op = ("extendedReq", {"name": utf8(ctx, msg.name), "value": msg.value})
    elif name == "ExtendedResponse":
        op = ("extendedResp", {"result": res(msg.result), "name": None if msg.name is None else utf8(ctx, msg.name), "value": msg.value})
    else:
        raise RefError(f"unknown message class {name}")
    return {"id": msg.message_id, "op": op, "controls": controls}


def abstract_control(ctx, c):
    n = type(c).__name__
    if n == "PagedResultControl":
        return {"type": utf8(ctx, c.control_type), "critical": c.critical, "paged": (c.size, c.cookie)}
    if n in ("ShowDeletedControl", "ShowDeactivatedLinkControl"):
        return {"type": utf8(ctx, c.control_type), "critical": c.critical, "value": None}
    return {"type": utf8(ctx, c.control_type), "critical": c.critical, "value": c.value}


def abstract_filter(ctx, f):
    n = type(f).__name__
    if n == "FilterAnd":
        return ("and", [abstract_filter(ctx, x) for x in f.filters])
    if n == "FilterOr":
        return ("or", [abstract_filter(ctx, x) for x in f.filters])
    if n == "FilterNot":
        return ("not", abstract_filter(ctx, f.filter))
    if n == "FilterEquality":
        return ("eq", utf8(ctx, f.attribute), f.value)
    if n == "FilterGreaterOrEqual":
        return ("ge", utf8(ctx, f.attribute), f.value)
    if n == "FilterLessOrEqual":
        return ("le", utf8(ctx, f.attribute), f.value)
    if n == "FilterApproxMatch":
        return ("approx", utf8(ctx, f.attribute), f.value)
    if n == "FilterPresent":
        return ("present", utf8(ctx, f.attribute))
    if n == "FilterSubstrings":
        parts = []
        if f.initial is not None:
            parts.append(("initial", f.initial))
        for a in f.any:
            parts.append(("any", a))
        if f.final is not None:
            parts.append(("final", f.final))
        return ("substrings", utf8(ctx, f.attribute), parts)
    if n == "FilterExtensibleMatch":
        return (
            "ext",
            None if f.rule is None else utf8(ctx, f.rule),
            None if f.attribute is None else utf8(ctx, f.attribute),
            f.value,
            f.dn_attributes,
        )
    raise RefError(f"unknown filter class {n}")


def controls_match(ctx, ref, decoded, expected):
    """decoded: controls from Ref.message; expected: from abstract_control (paged handled by value decode)"""
    if len(decoded) != len(expected):
        return False
    conds = []
    for d, x in zip(decoded, expected):
        conds.append(ctx.eq(d["type"], x["type"]))
        conds.append(ctx.eq(d["critical"], x["critical"]))
        if "paged" in x:
            if d["value"] is None:
                return False
            size, cookie = ref.paged_value(d["value"])
            conds.append(ctx.eq(size, x["paged"][0]))
            conds.append(ctx.eq(cookie, x["paged"][1]))
        else:
            conds.append(ctx.eq(d["value"], x["value"]))
    return ctx.all(*conds)
