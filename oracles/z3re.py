"""sre parse tree -> z3 regular expression (for unbounded language-inclusion queries).
Python's `$` (end, or just before a final newline) is modelled; `^` is implied by match()."""
from __future__ import annotations

import z3

try:
    from re import _parser as sre_parse, _constants as sc
except ImportError:  # pragma: no cover
    import sre_parse, sre_constants as sc


def _ch(c):
    return z3.StringVal(chr(c)) if c < 0x110000 else None


def _range(lo, hi):
    return z3.Range(z3.StringVal(chr(lo)), z3.StringVal(chr(hi)))


def _cls_icase(av):
    from sx import sre as _sxsre

    neg, ranges = _sxsre._icase_ranges(av)
    parts = [z3.Re(_ch(a)) if a == b else _range(a, b) for a, b in ranges]
    u = parts[0] if len(parts) == 1 else z3.Union(*parts)
    if neg:
        return z3.Intersect(z3.AllChar(z3.ReSort(z3.StringSort())), z3.Complement(u))
    return u


_ICASE = [False]


def _cls(av):
    if _ICASE[0]:
        return _cls_icase(av)
    neg = False
    parts = []
    for op, a in av:
        if op is sc.NEGATE:
            neg = True
        elif op is sc.LITERAL:
            parts.append(z3.Re(_ch(a)))
        elif op is sc.RANGE:
            parts.append(_range(a[0], a[1]))
        else:
            raise NotImplementedError(op)
    u = parts[0] if len(parts) == 1 else z3.Union(*parts)
    if neg:
        return z3.Intersect(z3.AllChar(z3.ReSort(z3.StringSort())), z3.Complement(u))
    return u


def _seq(nodes, python_dollar=True):
    res = []
    for op, av in nodes:
        if op is sc.LITERAL:
            res.append(_cls_icase([(sc.LITERAL, av)]) if _ICASE[0] else z3.Re(_ch(av)))
        elif op is sc.IN:
            res.append(_cls(av))
        elif op is sc.ANY:
            res.append(z3.Intersect(z3.AllChar(z3.ReSort(z3.StringSort())), z3.Complement(z3.Re(z3.StringVal("\n")))))
        elif op is sc.SUBPATTERN:
            res.append(_seq(list(av[3])))
        elif op is sc.BRANCH:
            alts = [_seq(list(a)) for a in av[1]]
            res.append(alts[0] if len(alts) == 1 else z3.Union(*alts))
        elif op in (sc.MAX_REPEAT, sc.MIN_REPEAT):
            lo, hi, sub = av
            r = _seq(list(sub))
            if hi is sc.MAXREPEAT:
                if lo == 0:
                    res.append(z3.Star(r))
                elif lo == 1:
                    res.append(z3.Plus(r))
                else:
                    res.append(z3.Concat(z3.Loop(r, lo, lo), z3.Star(r)))
            else:
                res.append(z3.Loop(r, lo, hi))
        elif op is sc.AT:
            if av in (sc.AT_BEGINNING, sc.AT_BEGINNING_STRING):
                continue
            if av is sc.AT_END:
                res.append(z3.Option(z3.Re(z3.StringVal("\n"))))
            elif av is sc.AT_END_STRING:
                continue
            else:
                raise NotImplementedError(av)
        else:
            raise NotImplementedError(op)
    if not res:
        return z3.Re(z3.StringVal(""))
    return res[0] if len(res) == 1 else z3.Concat(*res)


def to_z3(pattern, flags=0):
    import re as _re

    _ICASE[0] = bool(flags & _re.IGNORECASE)
    try:
        return _seq(list(sre_parse.parse(pattern, flags)))
    finally:
        _ICASE[0] = False


def not_included(lib_pattern, lib_flags, rfc_pattern, timeout_ms=60000):
    """-> ('included', None) | ('witness', str) | ('unknown', reason): a string matched by the
    library pattern (fullmatch semantics with Python's `$`) that is not in the RFC language"""
    s = z3.String("s")
    sol = z3.Solver()
    sol.set("timeout", timeout_ms)
    sol.add(z3.InRe(s, to_z3(lib_pattern, lib_flags)))
    sol.add(z3.Not(z3.InRe(s, to_z3(rfc_pattern))))
    r = sol.check()
    if r == z3.unsat:
        return "included", None
    if r == z3.sat:
        return "witness", sol.model()[s].as_string()
    return "unknown", sol.reason_unknown()
