"""Hunt mode: what happens when the code under test hands a symbolic value to something the
engine has no model for (a C function such as unicodedata.normalize, an unmodelled str method).

The value is pinned to a few representative concrete values (a palette, each feasible one on a
path of its own) and the real function runs on it.  The unit is then marked *partial*: a
violation found this way is replayed and reported like any other, but without one the unit is
INCONCLUSIVE (exit 3) - the values outside the palette were not covered, so nothing is claimed.
"""
from __future__ import annotations

import builtins

import z3

from . import core

_real_isinstance = builtins.isinstance
_real_int = builtins.int

# characters that behave differently under case mapping, normalisation, width, class tests
CHARS = [0x41, 0x61, 0x30, 0x20, 0x00, 0x7F, 0xDF, 0xE9, 0x130, 0x131, 0x17F, 0x212A, 0x212B, 0xFB01, 0xA0, 0xAD, 0x301, 0x2028, 0xFF21, 0x1F600, 0x27, 0x5C, 0x2A, 0x28, 0x0A, 0x80, 0xFF, 0x7FF, 0x800, 0xFFFF, 0x10000, 0x10FFFF]
# short strings that typically matter to (un)escaping code: other escape syntaxes next to specials
TOKENS = ["%2a)", "%41(x", "%5c\\", "\\2a%", "&#40;(", "=28)", "+ (+", "a%00*", "''", "\\\\"]
INTS = [0, 1, -1, 2, 127, 128, 255, 256, 65535, 65536, 2**31 - 1, 2**31, 2**32, -128, -129, 2**63, -(2**63)]


def _eng():
    e = core.cur
    if e is None:
        raise core.Unsupported("hunt mode outside an exploration")
    return e


def _pick(terms, candidates, what):
    """fork over the feasible candidate tuples (not exhaustive): marks the unit partial"""
    e = _eng()
    e.partial = what if not getattr(e, "partial", None) else e.partial
    for cand in candidates:
        cond = z3.And(*[t == z3.IntVal(v) for t, v in zip(terms, cand)]) if terms else z3.BoolVal(True)
        if e.decide(cond):
            return cand
    raise core.PathAbort()


def conc_items(items, what):
    """concrete ints for a list of int|term items"""
    from . import ints as I

    sym = [(i, x) for i, x in enumerate(items) if not _real_isinstance(x, _real_int)]
    if not sym:
        return list(items)
    terms = [I.iterm(x) for _, x in sym]
    n = len(sym)
    cands = [tuple([c] * n) for c in CHARS]
    if n > 1:
        cands += [tuple([0x41] * (n - 1) + [c]) for c in CHARS[6:22]] + [tuple([c] + [0x61] * (n - 1)) for c in CHARS[6:22]]
        cands += [tuple((ord(t[i]) if i < len(t) else 0x61) for i in range(n)) for t in TOKENS]
    vals = _pick(terms, cands, what)
    out = list(items)
    for (i, _), v in zip(sym, vals):
        out[i] = v
    return out


def conc(x, what):
    """a concrete Python value for a proxy (palette-based), or x itself"""
    from . import ints as I, text as T, values as V

    if _real_isinstance(x, T.SStr):
        return "".join(chr(c) for c in conc_items(x.items, what))
    if _real_isinstance(x, (V.SBytes, V.SByteArray, V.SMemoryView)):
        its = conc_items([min(c, 255) if _real_isinstance(c, _real_int) else c for c in V.items_of(x)], what)
        b = bytes(its)
        return bytearray(b) if _real_isinstance(x, V.SByteArray) else b
    if _real_isinstance(x, I.SBool):
        return bool(_pick([z3.If(I.bterm(x), 1, 0)], [(1,), (0,)], what)[0])
    if _real_isinstance(x, I.SInt):
        return _pick([I.iterm(x)], [(v,) for v in INTS], what)[0]
    if _real_isinstance(x, (list, tuple)):
        return type(x)(conc(y, what) for y in x)
    return x


class HuntModule:
    """proxy of a stdlib module whose functions are not modelled: proxies among the arguments are
    pinned to palette values, then the real function runs"""

    def __init__(self, mod):
        object.__setattr__(self, "_mod", mod)

    def __getattr__(self, k):
        v = getattr(object.__getattribute__(self, "_mod"), k)
        if isinstance(v, type(builtins)):
            return HuntModule(v)
        if callable(v) and not _real_isinstance(v, type):
            name = f"{object.__getattribute__(self, '_mod').__name__}.{k}"

            def call(*a, **kw):
                return v(*[conc(x, name) for x in a], **{kk: conc(x, name) for kk, x in kw.items()})

            return call
        return v


HUNT_MODULES = ("urllib", "urllib.parse", "html", "quopri", "shlex", "unicodedata", "stringprep", "binascii", "math", "zlib", "hashlib", "hmac", "string", "textwrap", "codecs", "operator", "bisect", "heapq", "fractions", "decimal")
