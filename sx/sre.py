"""Backtracking regex matcher over the sre parse tree, in sre's priority order, on element lists
whose entries may be z3 terms.  Character tests go through Engine.decide, so on every explored
path the matcher follows exactly the alternatives CPython's engine would follow for the concrete
strings of that path (captures, greedy/lazy choices, `$` before a final newline included).
"""
from __future__ import annotations

import builtins
import re as _re
import z3

try:  # 3.11+
    from re import _parser as _sre_parse, _constants as _sc
except ImportError:  # pragma: no cover
    import sre_parse as _sre_parse, sre_constants as _sc

from . import core
from .core import Unsupported
from . import values as V
from . import text as T

_real_isinstance = builtins.isinstance
_real_int = builtins.int
_real_len = builtins.len

MAXREPEAT = _sc.MAXREPEAT


def E():
    return core.cur


_INV_LOWER = None


def _preimage(members):
    """all code points whose sre-lowercase is in `members` (plus sre's equivalence fixes): the set
    of subject characters that match a class with these (lower-cased) members under IGNORECASE"""
    global _INV_LOWER
    import _sre

    if _INV_LOWER is None:
        inv = {}
        for cp in range(0x110000):
            inv.setdefault(_sre.unicode_tolower(cp), []).append(cp)
        _INV_LOWER = inv
    try:
        from re import _casefix

        fixes = _casefix._EXTRA_CASES
    except ImportError:  # pragma: no cover
        import sre_compile as _cmp

        fixes = getattr(_cmp, "_ignorecase_fixes", {})
    low = set()
    for m in members:
        lo = _sre.unicode_tolower(m)
        low.add(lo)
        for k in fixes.get(lo, ()):
            low.add(k)
    out = set()
    for lo in low:
        out.update(_INV_LOWER.get(lo, [lo]))
    return sorted(out)


_ICASE_CACHE = {}


def _icase_ranges(av):
    """(negated, list of (lo, hi)) of subject characters matching class items `av` under IGNORECASE"""
    key = repr(av)
    hit = _ICASE_CACHE.get(key)
    if hit is not None:
        return hit
    neg = False
    members = set()
    for op, a in av:
        if op is _sc.NEGATE:
            neg = True
        elif op is _sc.LITERAL:
            members.add(a)
        elif op is _sc.RANGE:
            if a[1] - a[0] > 5000:
                raise Unsupported("very wide character range under IGNORECASE")
            members.update(range(a[0], a[1] + 1))
        else:
            raise Unsupported(f"regex class item {op} under IGNORECASE")
    pts = _preimage(members)
    ranges = []
    for p in pts:
        if ranges and ranges[-1][1] == p - 1:
            ranges[-1][1] = p
        else:
            ranges.append([p, p])
    hit = _ICASE_CACHE[key] = (neg, [(a, b) for a, b in ranges])
    return hit


def _cond_icase(c, av):
    neg, ranges = _icase_ranges(av)
    if _real_isinstance(c, _real_int):
        r = any(a <= c <= b for a, b in ranges)
        return (not r) if neg else r
    ts = [(c == a) if a == b else z3.And(c >= a, c <= b) for a, b in ranges]
    t = z3.Or(*ts) if ts else z3.BoolVal(False)
    return z3.Not(t) if neg else t


def _cond_in(c, av, is_bytes):
    """z3 Bool (or python bool when decidable) for: element c is in class item list av"""
    neg = False
    parts = []
    for op, a in av:
        if op is _sc.NEGATE:
            neg = True
        elif op is _sc.LITERAL:
            parts.append(("lit", a))
        elif op is _sc.RANGE:
            parts.append(("rng", a))
        elif op is _sc.CATEGORY:
            parts.append(("cat", a))
        else:
            raise Unsupported(f"regex class item {op}")
    if _real_isinstance(c, _real_int):
        r = False
        for k, a in parts:
            if k == "lit":
                r = r or c == a
            elif k == "rng":
                r = r or a[0] <= c <= a[1]
            else:
                r = r or _cat_concrete(c, a, is_bytes)
        return (not r) if neg else r
    ts = []
    for k, a in parts:
        if k == "lit":
            ts.append(c == a)
        elif k == "rng":
            ts.append(z3.And(c >= a[0], c <= a[1]))
        else:
            ts.append(_cat_sym(c, a, is_bytes))
    t = z3.Or(*ts) if ts else z3.BoolVal(False)
    return z3.Not(t) if neg else t


def _cat_concrete(c, cat, is_bytes):
    ch = chr(c)
    pat = {
        _sc.CATEGORY_DIGIT: r"\d",
        _sc.CATEGORY_NOT_DIGIT: r"\D",
        _sc.CATEGORY_SPACE: r"\s",
        _sc.CATEGORY_NOT_SPACE: r"\S",
        _sc.CATEGORY_WORD: r"\w",
        _sc.CATEGORY_NOT_WORD: r"\W",
    }.get(cat)
    if pat is None:
        raise Unsupported(f"regex category {cat}")
    if is_bytes:
        return _re.match(pat.encode(), bytes([c])) is not None
    return _re.match(pat, ch) is not None


def _cat_sym(c, cat, is_bytes):
    if not is_bytes:
        raise Unsupported("regex category on symbolic text (Unicode tables not modelled)")
    digit = z3.And(c >= 48, c <= 57)
    space = z3.Or(c == 32, z3.And(c >= 9, c <= 13))
    word = z3.Or(digit, z3.And(c >= 65, c <= 90), z3.And(c >= 97, c <= 122), c == 95)
    return {
        _sc.CATEGORY_DIGIT: digit,
        _sc.CATEGORY_NOT_DIGIT: z3.Not(digit),
        _sc.CATEGORY_SPACE: space,
        _sc.CATEGORY_NOT_SPACE: z3.Not(space),
        _sc.CATEGORY_WORD: word,
        _sc.CATEGORY_NOT_WORD: z3.Not(word),
    }[cat]


def _test(cond):
    if _real_isinstance(cond, bool):
        return cond
    return E().decide(cond)


class _State:
    __slots__ = ("items", "n", "groups", "is_bytes", "steps", "icase")

    def __init__(self, items, ngroups, is_bytes, icase=False):
        self.items = items
        self.n = _real_len(items)
        self.groups = [None] * (ngroups + 1)
        self.is_bytes = is_bytes
        self.steps = 0
        self.icase = icase


def _match_seq(nodes, i, pos, st, cont):
    """match nodes[i:] at pos, then cont(pos) -> end position or None"""
    st.steps += 1
    if i == _real_len(nodes):
        return cont(pos)
    op, av = nodes[i]
    nxt = lambda p: _match_seq(nodes, i + 1, p, st, cont)  # noqa: E731
    items, n = st.items, st.n

    if st.icase and op in (_sc.LITERAL, _sc.NOT_LITERAL, _sc.IN):
        cls = [(_sc.LITERAL, av)] if op is not _sc.IN else av
        if pos < n:
            r = _test(_cond_icase(items[pos], cls))
            if r != (op is _sc.NOT_LITERAL):
                return nxt(pos + 1)
        return None
    if op is _sc.LITERAL:
        if pos < n and _lit_test(items[pos], av):
            return nxt(pos + 1)
        return None
    if op is _sc.NOT_LITERAL:
        if pos < n and not _lit_test(items[pos], av):
            return nxt(pos + 1)
        return None
    if op is _sc.ANY:
        if pos < n and not _lit_test(items[pos], 10):
            return nxt(pos + 1)
        return None
    if op is _sc.IN:
        if pos < n and _in_test(items[pos], av, st.is_bytes):
            return nxt(pos + 1)
        return None
    if op is _sc.AT:
        if av is _sc.AT_BEGINNING or av is _sc.AT_BEGINNING_STRING:
            return nxt(pos) if pos == 0 else None
        if av is _sc.AT_END:
            if pos == n or (pos == n - 1 and _test(_lit(items[pos], 10))):
                return nxt(pos)
            return None
        if av is _sc.AT_END_STRING:
            return nxt(pos) if pos == n else None
        raise Unsupported(f"regex anchor {av}")
    if op is _sc.SUBPATTERN:
        group, add_flags, del_flags, sub = av
        if add_flags or del_flags:
            raise Unsupported("inline regex flags")
        if group is None:
            return _match_seq(list(sub), 0, pos, st, nxt)
        old = st.groups[group]

        def close(p, group=group, start=pos):
            prev = st.groups[group]
            st.groups[group] = (start, p)
            r = nxt(p)
            if r is None:
                st.groups[group] = prev
            return r

        r = _match_seq(list(sub), 0, pos, st, close)
        if r is None:
            st.groups[group] = old
        return r
    if op is _sc.BRANCH:
        _, alts = av
        for alt in alts:
            saved = list(st.groups)
            r = _match_seq(list(alt), 0, pos, st, nxt)
            if r is not None:
                return r
            st.groups = saved
        return None
    if op is _sc.MAX_REPEAT or op is _sc.MIN_REPEAT:
        lo, hi, sub = av
        sub = list(sub)
        greedy = op is _sc.MAX_REPEAT

        def rep(count, p):
            def more():
                if hi is not MAXREPEAT and count >= hi:
                    return None
                saved = list(st.groups)

                def after(p2):
                    if p2 == p and count >= lo:
                        return None  # empty iteration: sre stops repeating here
                    return rep(count + 1, p2)

                r = _match_seq(sub, 0, p, st, after)
                if r is None:
                    st.groups = saved
                return r

            def stop():
                if count < lo:
                    return None
                return nxt(p)

            if greedy:
                r = more()
                if r is not None:
                    return r
                return stop()
            r = stop()
            if r is not None:
                return r
            return more()

        return rep(0, pos)
    if op is _sc.GROUPREF:
        g = st.groups[av]
        if g is None:
            return None
        a, b = g
        k = b - a
        if pos + k > n:
            return None
        if V._real_bool(V.seq_eq(items[a:b], items[pos : pos + k])):
            return nxt(pos + k)
        return None
    if op is _sc.ASSERT or op is _sc.ASSERT_NOT:
        direction, sub = av
        if direction < 0:
            raise Unsupported("regex look-behind")
        saved = list(st.groups)
        r = _match_seq(list(sub), 0, pos, st, lambda p: p)
        if op is _sc.ASSERT:
            if r is None:
                st.groups = saved
                return None
            return nxt(pos)
        st.groups = saved
        if r is not None:
            return None
        return nxt(pos)
    raise Unsupported(f"regex op {op}")


def _lit_test(c, a):
    """element c == constant a, through the shared SInt (intervals, exclusions, refinement)"""
    if _real_isinstance(c, _real_int):
        return c == a
    return V._real_bool(V._shared(c, None, None) == a)


def _in_test(c, av, is_bytes):
    """class membership test; the outcome refines the element's interval / exclusion set"""
    if _real_isinstance(c, _real_int):
        return _cond_in(c, av, is_bytes)
    s = V._shared(c, None, None)
    if _real_isinstance(s, _real_int):
        return _cond_in(s, av, is_bytes)
    neg = any(op is _sc.NEGATE for op, _ in av)
    parts = [(op, a) for op, a in av if op is not _sc.NEGATE]
    simple = all(op in (_sc.LITERAL, _sc.RANGE) for op, _ in parts)
    if simple and s.lo is not None and s.hi is not None:
        # decide by the abstract domain when possible
        inside_all = True
        outside_all = True
        ranges = [(a, a) if op is _sc.LITERAL else a for op, a in parts]
        for lo, hi in ranges:
            if not (hi < s.lo or lo > s.hi):
                # overlaps the hull
                if lo == hi and s.excl and lo in s.excl:
                    continue
                outside_all = False
        # value certainly in the class if one range covers the whole hull
        inside_all = any(lo <= s.lo and s.hi <= hi for lo, hi in ranges)
        if outside_all:
            return neg
        if inside_all:
            return not neg
    out = E().decide(_cond_in(c, av, is_bytes))
    if simple:
        member = out != neg  # is the value in the union of the listed ranges?
        ranges = [(a, a) if op is _sc.LITERAL else a for op, a in parts]
        if member:
            lo = min(r[0] for r in ranges)
            hi = max(r[1] for r in ranges)
            if s.lo is None or lo > s.lo:
                s.lo = lo
            if s.hi is None or hi < s.hi:
                s.hi = hi
        else:
            from .ints import exclude

            changed = True
            while changed:
                changed = False
                for lo, hi in ranges:
                    if s.lo is not None and lo <= s.lo <= hi:
                        s.lo = hi + 1
                        changed = True
                    if s.hi is not None and lo <= s.hi <= hi:
                        s.hi = lo - 1
                        changed = True
            for lo, hi in ranges:
                if lo == hi:
                    exclude(s, lo)
    return out


def _lit(c, a):
    if _real_isinstance(c, _real_int):
        return c == a
    return c == a


class SMatch:
    def __init__(self, pat, subject, items, is_bytes, start, end, groups):
        self.re = pat
        self.string = subject
        self._items = items
        self._is_bytes = is_bytes
        self._spans = [(start, end)] + [g if g is not None else (-1, -1) for g in groups[1:]]

    def _idx(self, g):
        if _real_isinstance(g, str):
            return self.re.groupindex[g]
        return g

    def _mk(self, a, b):
        if a < 0:
            return None
        seg = self._items[a:b]
        return V.mk_bytes(seg) if self._is_bytes else T.mk_str(seg)

    def group(self, *gs):
        if not gs:
            gs = (0,)
        out = [self._mk(*self._spans[self._idx(g)]) for g in gs]
        return out[0] if _real_len(out) == 1 else tuple(out)

    __getitem__ = group

    def groups(self, default=None):
        return tuple(self._mk(a, b) if a >= 0 else default for a, b in self._spans[1:])

    def groupdict(self, default=None):
        return {k: (self.group(v) if self._spans[v][0] >= 0 else default) for k, v in self.re.groupindex.items()}

    def start(self, g=0):
        return self._spans[self._idx(g)][0]

    def end(self, g=0):
        return self._spans[self._idx(g)][1]

    def span(self, g=0):
        return self._spans[self._idx(g)]

    def __bool__(self):
        return True


class SPattern:
    def __init__(self, pattern, flags=0):
        self.pattern = pattern
        self._real = _re.compile(pattern, flags)
        self.flags = self._real.flags
        self.groupindex = dict(self._real.groupindex)
        self.groups = self._real.groups
        self._is_bytes = _real_isinstance(pattern, bytes)
        self._tree = None
        self._icase = bool(self.flags & _re.IGNORECASE)
        if self.flags & (_re.MULTILINE | _re.DOTALL | _re.LOCALE) or (self._icase and (self._is_bytes or self.flags & _re.ASCII)):
            self._unsupported = True
        else:
            self._unsupported = False

    def _nodes(self):
        if self._tree is None:
            self._tree = list(_sre_parse.parse(self.pattern, self.flags & ~_re.UNICODE if self._is_bytes else self.flags))
        return self._tree

    def _subject(self, s):
        """-> (items, symbolic?)"""
        if self._is_bytes:
            if _real_isinstance(s, (V.SBytes, V.SByteArray, V.SMemoryView)):
                return s._items(), True
            return None, False
        if _real_isinstance(s, T.SStr):
            return s.items, True
        return None, False

    def _match_at(self, items, pos, full=False):
        if self._unsupported:
            raise Unsupported(f"regex flags {self.flags} on symbolic input")
        st = _State(items, self.groups, self._is_bytes, self._icase)
        n = st.n
        end = _match_seq(self._nodes(), 0, pos, st, (lambda p: p if p == n else None) if full else (lambda p: p))
        if end is None:
            return None
        return st, end

    def match(self, s, pos=0):
        items, sym = self._subject(s)
        if not sym:
            return self._real.match(s, pos)
        r = self._match_at(items, pos)
        if r is None:
            return None
        return SMatch(self, s, items, self._is_bytes, pos, r[1], r[0].groups)

    def fullmatch(self, s):
        items, sym = self._subject(s)
        if not sym:
            return self._real.fullmatch(s)
        r = self._match_at(items, 0, full=True)
        if r is None:
            return None
        return SMatch(self, s, items, self._is_bytes, 0, r[1], r[0].groups)

    def search(self, s, pos=0):
        items, sym = self._subject(s)
        if not sym:
            return self._real.search(s, pos)
        for p in range(pos, _real_len(items) + 1):
            r = self._match_at(items, p)
            if r is not None:
                return SMatch(self, s, items, self._is_bytes, p, r[1], r[0].groups)
        return None

    def finditer(self, s, pos=0):
        items, sym = self._subject(s)
        if not sym:
            return self._real.finditer(s, pos)
        out = []
        n = _real_len(items)
        while pos <= n:
            m = None
            for p in range(pos, n + 1):
                r = self._match_at(items, p)
                if r is not None:
                    m = SMatch(self, s, items, self._is_bytes, p, r[1], r[0].groups)
                    break
            if m is None:
                break
            out.append(m)
            a, b = m.span()
            pos = b + 1 if b == a else b
        return iter(out)

    def findall(self, s, pos=0):
        items, sym = self._subject(s)
        if not sym:
            return self._real.findall(s, pos)
        empty = b"" if self._is_bytes else ""
        out = []
        for m in self.finditer(s, pos):
            if self.groups == 0:
                out.append(m.group(0))
            elif self.groups == 1:
                g = m.group(1)
                out.append(empty if g is None else g)
            else:
                out.append(tuple(empty if g is None else g for g in m.groups()))
        return out

    def split(self, s, maxsplit=0):
        items, sym = self._subject(s)
        if not sym:
            return self._real.split(s, maxsplit)
        mk = V.mk_bytes if self._is_bytes else T.mk_str
        out, last, done = [], 0, 0
        for m in self.finditer(s):
            if maxsplit and done >= maxsplit:
                break
            a, b = m.span()
            out.append(mk(items[last:a]))
            out.extend(m.groups())
            last = b
            done += 1
        out.append(mk(items[last:]))
        return out

    def sub(self, repl, s, count=0):
        items, sym = self._subject(s)
        if not sym:
            if callable(repl):
                # the callable may return a proxy: do the scan ourselves on the concrete string
                items = list(s) if self._is_bytes else [ord(c) for c in s]
            else:
                return self._real.sub(repl, s, count)
        n = _real_len(items)
        out = []
        pos = 0
        done = 0
        while pos <= n:
            m = None
            if not count or done < count:
                for p in range(pos, n + 1):
                    r = self._match_at(items, p)
                    if r is not None:
                        m = SMatch(self, s, items, self._is_bytes, p, r[1], r[0].groups)
                        break
            if m is None:
                out.extend(items[pos:])
                break
            a, b = m.span()
            out.extend(items[pos:a])
            if callable(repl):
                rv = repl(m)
            else:
                if (b"\\" if self._is_bytes else "\\") in repl:
                    raise Unsupported("regex replacement template with escapes")
                rv = repl
            out.extend(V.items_of(rv) if self._is_bytes else T.citems(rv))
            done += 1
            if b == a:
                if a < n:
                    out.append(items[a])
                pos = a + 1
            else:
                pos = b
        return V.mk_bytes(out) if self._is_bytes else T.mk_str(out)

    def __repr__(self):
        return f"SPattern({self.pattern!r})"


_cache = {}


def compile(pattern, flags=0):  # noqa: A001
    if _real_isinstance(pattern, SPattern):
        return pattern
    key = (pattern, _real_int(flags))
    p = _cache.get(key)
    if p is None:
        p = _cache[key] = SPattern(pattern, _real_int(flags))
        for hook in compile_hooks:
            hook(p)
    return p


compile_hooks = []


def match(pattern, string, flags=0):
    return compile(pattern, flags).match(string)


def fullmatch(pattern, string, flags=0):
    return compile(pattern, flags).fullmatch(string)


def search(pattern, string, flags=0):
    return compile(pattern, flags).search(string)


def sub(pattern, repl, string, count=0, flags=0):
    return compile(pattern, flags).sub(repl, string, count)


def finditer(pattern, string, flags=0):
    return compile(pattern, flags).finditer(string)


def findall(pattern, string, flags=0):
    return compile(pattern, flags).findall(string)


def split(pattern, string, maxsplit=0, flags=0):
    return compile(pattern, flags).split(string, maxsplit)


def subn(pattern, repl, string, count=0, flags=0):
    raise Unsupported("re.subn on symbolic input")


def escape(s):
    return _re.escape(s)


Match = _re.Match
Pattern = _re.Pattern
error = _re.error
VERBOSE = X = _re.VERBOSE
IGNORECASE = I = _re.IGNORECASE
MULTILINE = M = _re.MULTILINE
DOTALL = S = _re.DOTALL
ASCII = A = _re.ASCII
UNICODE = U = _re.UNICODE
