"""Check driver: units -> worker pool -> evidence / VIOLATION lines / exit code.

exit 0  every obligation discharged on every explored path, every path validated on the real code
exit 1  a replay-confirmed violation that is not a listed known finding
exit 3  inconclusive (solver unknown, unsupported construct, budget exhausted, engine/real mismatch)
"""
from __future__ import annotations

import hashlib
import json
import multiprocessing
import os
import sys
import time
import traceback

from . import core, harness as H, loader

VERIF = os.path.dirname(os.path.dirname(os.path.abspath(__file__)))
# (overridable so that runs against scratch copies of the repository never touch the real evidence)
EVIDENCE_DIR = os.environ.get("SX_EVIDENCE_DIR") or os.path.join(VERIF, "evidence")
REPLAY_DIR = os.environ.get("SX_REPLAY_DIR") or os.path.join(VERIF, "replays")
KNOWN = os.path.join(VERIF, "known_findings.json")

_state = {}


def _libs():
    if "sym" not in _state:
        sp = loader.ShadowPackage()
        _state["sp"] = sp
        _state["sym"] = H.Lib(sp.module, sp.root_module())
        real = loader.load_real()
        import importlib

        _state["real"] = H.Lib(lambda n: importlib.import_module(f"sansldap.{n}"), real)
        _start_monitoring()
    return _state["sym"], _state["real"]


_funcs = set()


def _start_monitoring():
    mon = getattr(sys, "monitoring", None)
    if mon is None:
        return
    tool = 3
    try:
        mon.use_tool_id(tool, "sx-cover")
    except ValueError:
        return
    root = os.path.join(loader.REPO_SRC, loader.PKG)

    def on_start(code, offset):
        if code.co_filename.startswith(root):
            _funcs.add(f"{os.path.basename(code.co_filename)}:{code.co_qualname}")
        return mon.DISABLE

    mon.register_callback(tool, mon.events.PY_START, on_start)
    mon.set_events(tool, mon.events.PY_START)


def _sig(label, detail):
    return label if not detail else f"{label}:{detail}"


def run_unit(args):
    """Explore one unit in a thread with a large stack: the regex matcher and the lazy term builder
    recurse per input character (the interpreter's default limits are for ordinary programs)."""
    import threading

    import ctypes

    out = []
    box = {}
    threading.stack_size(512 * 1024 * 1024)
    old = sys.getrecursionlimit()
    sys.setrecursionlimit(max(old, 60000))
    t = threading.Thread(target=lambda: out.append(_run_unit(args, box)), daemon=True)
    t.start()
    # per-path limit in CPU seconds of the worker process (wall time would make the verdict depend on
    # machine load and on the second-solver subprocesses); a non-returning call burns CPU
    limit = args[2].get("path_limit_s", 20)
    # (process CPU time: the worker process runs this one thread besides the sleeping watchdog;
    # reading a thread's CPU clock is unsafe once the thread has exited)
    cpu = time.process_time
    kicks = 0
    marker, cpu0 = None, 0.0
    while t.is_alive():
        t.join(0.5)
        eng = box.get("eng")
        st = getattr(eng, "path_started", None) if eng is not None else None
        if st is None:
            marker = None
            continue
        try:
            now = cpu()
        except Exception:  # noqa: BLE001 - thread gone
            break
        if st != marker:
            marker, cpu0 = st, now
            continue
        if now - cpu0 > limit:
            # a single path of the code under test has been running for too long: interrupt it
            eng.path_started = marker = time.time()
            cpu0 = now
            ctypes.pythonapi.PyThreadState_SetAsyncExc(ctypes.c_ulong(t.ident), ctypes.py_object(core.PathTimeout))
            kicks += 1
            if kicks > 50:
                break
    sys.setrecursionlimit(old)
    if not out:
        return {"unit": args[1]["name"], "stats": None, "violations": [], "engine_faults": [], "inconclusive": "unit did not respond to the watchdog", "validated": 0, "samples": [], "wall_s": 0.0, "nontrivial": 0, "functions": []}
    return out[0]


def _confirm_hang(mod_name, unit, inputs, limit_s=20):
    """re-run the body on the REAL package with these inputs in a subprocess; True if it does not finish"""
    import subprocess

    payload = json.dumps({"mod": mod_name, "shape": unit["shape"], "inputs": H.jsonable(inputs)})
    code = (
        "import sys, json; sys.path.insert(0, %r)\n"
        "from sx import runner, harness as H\n"
        "d = json.loads(sys.stdin.read()); mod = __import__(d['mod'], fromlist=['*'])\n"
        "_, real = runner._libs()\n"
        "H.run_real(mod.body, real, d['shape'], H.unjson(d['inputs']))\n" % VERIF
    )
    try:
        subprocess.run([sys.executable, "-c", code], input=payload, text=True, capture_output=True, timeout=limit_s)
        return False
    except subprocess.TimeoutExpired:
        return True


def _confirm_cost(mod_name, unit, inputs, limit_s=20, as_bytes=1536 << 20):
    """re-run the body on the REAL package with these inputs in a subprocess whose address space is
    limited; True if it runs out of memory or does not finish (a message of under a hundred octets
    that needs more than 1.5 GiB or 20 s)"""
    import subprocess

    payload = json.dumps({"mod": mod_name, "shape": unit["shape"], "inputs": H.jsonable(inputs)})
    code = (
        "import sys, json, resource; sys.path.insert(0, %r)\n"
        "from sx import runner, harness as H\n"
        "d = json.loads(sys.stdin.read()); mod = __import__(d['mod'], fromlist=['*'])\n"
        "_, real = runner._libs()\n"
        "resource.setrlimit(resource.RLIMIT_AS, (%d, %d))\n"
        "try:\n"
        "    r = H.run_real(mod.body, real, d['shape'], H.unjson(d['inputs']))\n"
        "except MemoryError:\n"
        "    print('SX-COST MemoryError'); raise SystemExit(0)\n"
        "print('SX-COST', repr(r)[:4000])\n" % (VERIF, as_bytes, as_bytes)
    )
    try:
        out = subprocess.run([sys.executable, "-c", code], input=payload, text=True, capture_output=True, timeout=limit_s)
    except subprocess.TimeoutExpired:
        return True
    return "MemoryError" in out.stdout or "MemoryError" in out.stderr or out.returncode < 0


def _run_unit(args, box=None):
    """Explore one unit (one shape) exhaustively.  Runs in a worker process."""
    mod_name, unit, opts = args
    t0 = time.time()
    res = {
        "unit": unit["name"],
        "stats": None,
        "violations": [],
        "engine_faults": [],
        "inconclusive": None,
        "validated": 0,
        "samples": [],
        "wall_s": 0.0,
        "nontrivial": 0,
    }
    try:
        mod = __import__(mod_name, fromlist=["*"])
        sym, real = _libs()
        shape = unit["shape"]
        body = mod.body
        eng = core.Engine(
            timeout_ms=opts.get("timeout_ms", 60000),
            max_paths=opts.get("max_paths", 200000),
            seed=opts.get("seed", 0),
            cross_every=int(os.environ.get("SX_CROSSCHECK", opts.get("cross_every", 0)) or 0),
        )
        if box is not None:
            box["eng"] = eng
        ctx = H.SymCtx(sym)
        deadline = min(t0 + opts.get("unit_budget_s", 3600), opts.get("check_deadline", float("inf")))
        validate_every = opts.get("validate_every", 1)
        seen_real_fail = set()

        def fn():
            ctx.obs = []
            if time.time() > deadline:
                raise core.Inconclusive("unit time budget exhausted")
            return body(ctx, shape)

        def on_path(status, result, e):
            if status != "ok":
                return
            if len(e.trail) > 0 or True:
                res["nontrivial"] += 1
            n = e.stats.paths
            if validate_every and (n % validate_every == 0 or n <= 20):
                model = e.get_model()
                inputs = e.eval_inputs(model)
                sym_obs = [(k, H.conc(v, model)) for k, v in ctx.obs]
                fails, robs, err = H.run_real(body, real, shape, inputs)
                real_obs = [(k, H.plain(v)) for k, v in robs]
                if err is None and sym_obs != real_obs:
                    res["engine_faults"].append(
                        {"inputs": H.jsonable(inputs), "sym": H.jsonable(sym_obs), "real": H.jsonable(real_obs)}
                    )
                elif err == "assumption-failed":
                    res["engine_faults"].append({"inputs": H.jsonable(inputs), "note": "assumption holds symbolically but fails on the real run"})
                else:
                    res["validated"] += 1
                for label, detail in fails:
                    sg = _sig(label, detail)
                    if sg not in seen_real_fail:
                        seen_real_fail.add(sg)
                        res["violations"].append(
                            {"sig": sg, "label": label, "detail": detail, "inputs": H.jsonable(inputs), "confirmed": True, "via": "path-validation"}
                        )
                if n in (1, 7, 60, 400):
                    res["samples"].append({"path": n, "inputs": H.jsonable(inputs), "observed": H.jsonable(real_obs)[:6]})

        try:
            eng.explore(fn, on_path)
        except core.Inconclusive as ex:
            res["inconclusive"] = f"{type(ex).__name__}: {ex}"
        except core.PathLimit as ex:
            res["inconclusive"] = f"PathLimit: {ex}"
        res["stats"] = eng.stats.as_dict()
        for cf in eng.cross_faults:
            res["engine_faults"].append({"note": "second solver disagrees", **cf})
        # replay the solver's counterexamples on the genuine package
        seen = set(v["sig"] for v in res["violations"])
        for cex in eng.cexs:
            eng.path_started = time.time()  # the watchdog also guards replays
            try:
                fails, robs, err = H.run_real(body, real, shape, cex.inputs)
            except core.PathTimeout:
                eng.timeouts.append(cex.inputs)
                continue
            finally:
                eng.path_started = None
            if fails:
                for label, detail in fails:
                    sg = _sig(label, detail)
                    if sg in seen:
                        continue
                    seen.add(sg)
                    res["violations"].append(
                        {"sig": sg, "label": label, "detail": detail, "inputs": H.jsonable(cex.inputs), "confirmed": True, "via": "solver-model"}
                    )
            else:
                res["engine_faults"].append(
                    {"inputs": H.jsonable(cex.inputs), "label": cex.label, "note": "solver model does not reproduce on the real package", "err": err}
                )
        if eng.partial and not res["violations"] and not res["engine_faults"]:
            res["inconclusive"] = f"hunt mode: {eng.partial} has no model; its symbolic arguments were pinned to palette values, no violation found there, the other values are not covered"
        for inp in eng.costs[:3]:
            if inp is not None and _confirm_cost(mod_name, unit, inp):
                res["violations"].append({"sig": "big-integer-size-chosen-by-input", "label": "big-integer-size-chosen-by-input", "detail": None, "inputs": H.jsonable(inp), "confirmed": True, "via": "cost-obligation+subprocess"})
                break
        else:
            if eng.costs:
                res["inconclusive"] = f"{len(eng.costs)} path(s) shift by an input-chosen amount above 2**20 bits; the real package survived the witness within 1.5 GiB / 20 s"
        for inp in eng.timeouts[:3]:
            if inp is not None and _confirm_hang(mod_name, unit, inp):
                res["violations"].append({"sig": "call-does-not-return", "label": "call-does-not-return", "detail": None, "inputs": H.jsonable(inp), "confirmed": True, "via": "watchdog+subprocess"})
                break
        else:
            if eng.timeouts:
                res["inconclusive"] = f"{len(eng.timeouts)} path(s) exceeded the per-path time limit in the symbolic run but finish on the real package"
    except BaseException as ex:  # noqa: BLE001 - worker must always report
        res["inconclusive"] = f"harness error: {type(ex).__name__}: {ex}\n{traceback.format_exc()[-1500:]}"
    res["wall_s"] = round(time.time() - t0, 2)
    res["functions"] = sorted(_funcs)
    return res


def load_known():
    try:
        with open(KNOWN) as fh:
            return json.load(fh)
    except FileNotFoundError:
        return {"findings": [], "fixed": []}


def replay_file(mod, path):
    with open(path) as fh:
        r = json.load(fh)
    if "shape" not in r and hasattr(mod, "replay"):
        return mod.replay(r)
    if r.get("signature") in ("big-integer-size-chosen-by-input", "call-does-not-return"):
        # resource witnesses: run on the real package in a subprocess (address-space / time limit)
        unit = {"shape": r["shape"]}
        inp = H.unjson(r["inputs"])
        bad = _confirm_cost(mod.__name__, unit, inp) if r["signature"].startswith("big") else _confirm_hang(mod.__name__, unit, inp)
        print(json.dumps({"signature": r["signature"], "reproduced": bad}))
        return 1 if bad else 0
    _, real = _libs()
    fails, obs, err = H.run_real(mod.body, real, r["shape"], H.unjson(r["inputs"]))
    print(json.dumps({"failures": fails, "error": err, "observations": H.jsonable([(k, H.plain(v)) for k, v in obs])}, indent=1, default=repr))
    return 1 if fails else 0


def main(mod, argv=None):
    import argparse

    ap = argparse.ArgumentParser()
    ap.add_argument("--tier", default=os.environ.get("VERIF_TIER", "quick"))
    ap.add_argument("--replay")
    ap.add_argument("--jobs", type=int, default=int(os.environ.get("VERIF_JOBS") or (os.cpu_count() or 16)))
    ap.add_argument("--only")
    a = ap.parse_args(argv)
    if a.replay:
        return replay_file(mod, a.replay)
    seed = int(os.environ.get("VERIF_SEED", "0") or 0)
    tier = a.tier if a.tier in ("quick", "thorough") else "quick"
    t0 = time.time()
    prop = mod.PROPERTY
    units = mod.units(tier)
    if a.only:
        units = [u for u in units if a.only in u["name"]]
    opts = dict(getattr(mod, "OPTIONS", {}).get(tier, {}))
    opts["seed"] = seed
    # a whole-check time limit: units that have not finished by then are inconclusive, what the others
    # found is still reported (a change that makes many units explode must not make the check run for hours)
    opts["check_deadline"] = t0 + float(os.environ.get("SX_CHECK_BUDGET_S", opts.get("check_budget_s", 1800 if tier == "quick" else 5 * 3600)))
    if tier == "thorough":
        opts.setdefault("path_limit_s", 60)
        opts.setdefault("cross_every", 400)  # sampled queries are re-decided by z3 4.8.12 and cvc5
    # cheapest first keeps the pool busy at the tail; order is otherwise irrelevant to the verdict
    order = list(range(len(units)))
    if seed:
        import random

        random.Random(seed).shuffle(order)
    jobs = [(mod.__name__, units[i], opts) for i in order]
    results = []
    ctx = multiprocessing.get_context("fork")
    if a.jobs <= 1 or len(jobs) <= 1:
        results = [run_unit(j) for j in jobs]
    else:
        results = _run_pool(ctx, jobs, min(a.jobs, len(jobs)))
    extra = {}
    if hasattr(mod, "post"):
        extra = mod.post(tier, results) or {}
    return report(mod, prop, tier, seed, units, results, time.time() - t0, extra)


def _dead(job, why):
    return {"unit": job[1]["name"], "stats": None, "violations": [], "engine_faults": [], "inconclusive": why, "validated": 0, "samples": [], "wall_s": 0.0, "nontrivial": 0, "functions": []}


def _run_pool(ctx, jobs, n):
    """run the units in worker processes; a worker that dies (signal, out of memory) must not hang
    the check: its units are retried once in isolation and otherwise reported as inconclusive"""
    from concurrent.futures import ProcessPoolExecutor, as_completed
    from concurrent.futures.process import BrokenProcessPool

    results = []
    todo = list(jobs)
    for attempt in (0, 1):
        if not todo:
            break
        left = []
        workers = n if attempt == 0 else max(1, min(n, 4))
        with ProcessPoolExecutor(max_workers=workers, mp_context=ctx) as ex:
            futs = {ex.submit(run_unit, j): j for j in todo}
            for f in as_completed(futs):
                try:
                    results.append(f.result())
                except BrokenProcessPool:
                    left.append(futs[f])
                except BaseException as e:  # noqa: BLE001
                    results.append(_dead(futs[f], f"worker failed: {type(e).__name__}: {e}"))
        todo = left
    for j in todo:
        # still failing: one process per unit, so that only the culprit is lost
        try:
            with ProcessPoolExecutor(max_workers=1, mp_context=ctx) as ex:
                results.append(ex.submit(run_unit, j).result())
        except BaseException as e:  # noqa: BLE001
            results.append(_dead(j, f"worker process died while running this unit ({type(e).__name__})"))
    return results


def report(mod, prop, tier, seed, units, results, wall, extra):
    known = load_known()
    known_sigs = {f["signature"]: f for f in known.get("findings", []) if f["property"] == prop}
    tot = core.Stats()
    validated = 0
    functions = set()
    inconclusive = []
    faults = []
    viol = {}
    samples = []
    nontrivial = 0
    for r in results:
        if r["stats"]:
            s = core.Stats()
            s.__dict__.update(r["stats"])
            tot.add(s)
        validated += r["validated"]
        nontrivial += r["nontrivial"]
        functions.update(r.get("functions", []))
        if r["inconclusive"]:
            inconclusive.append({"unit": r["unit"], "why": r["inconclusive"]})
        for f in r["engine_faults"]:
            f["unit"] = r["unit"]
            faults.append(f)
        for v in r["violations"]:
            v["unit"] = r["unit"]
            viol.setdefault(v["sig"], v)
        for s_ in r["samples"]:
            samples.append({"unit": r["unit"], **s_})
    # show the deepest explored cases rather than the first trivial ones
    samples.sort(key=lambda x: (-x.get("path", 0), -len(json.dumps(x, default=repr))))
    samples = samples[:8]
    by_name = {u["name"]: u for u in units}
    new = []
    known_hit = []
    os.makedirs(os.path.join(REPLAY_DIR, prop), exist_ok=True)
    for sg, v in sorted(viol.items()):
        h = hashlib.sha1(sg.encode()).hexdigest()[:10]
        path = os.path.join(REPLAY_DIR, prop, f"{h}.json")
        with open(path, "w") as fh:
            json.dump(
                {"property": prop, "signature": sg, "unit": v["unit"], "shape": by_name[v["unit"]]["shape"], "inputs": v["inputs"], "label": v["label"], "detail": v["detail"], "via": v["via"]},
                fh,
                indent=1,
            )
        if sg in known_sigs:
            known_hit.append((sg, known_sigs[sg]))
        else:
            new.append((sg, path))
    for sg, f in known_hit:
        print(f"KNOWN-FINDING: property={prop} {sg} - {f.get('what', '')}")
    for sg, path in new:
        print(f"VIOLATION property={prop} replay={path}  [{sg}]")
    cov = {
        "states": max(1, tot.paths),
        "transitions": max(1, tot.decisions),
        "traces_validated_against_impl": validated,
        "samples": samples or [{"note": "no path completed"}],
        "obligations": tot.obligations,
        "discharged": tot.discharged,
        "violated_obligations": tot.violated,
        "paths": tot.paths,
        "paths_aborted_by_assumptions": tot.aborted,
        "solver_queries": tot.queries,
        "solver_sat": tot.sat,
        "solver_unsat": tot.unsat,
        "solver_unknown": tot.unknown,
        "solver_s": round(tot.solver_s, 2),
        "second_solver": {"queries_rechecked_x2": tot.cross_checked, "agreed": tot.cross_agreed, "disagreed": tot.cross_disagreed, "other_solver_unknown_or_timeout": tot.cross_other_inconclusive, "solvers": "z3 4.8.12 (/usr/bin/z3), cvc5 1.0 binary; ours: z3 5.1 python"},
        "units": len(units),
        "units_run": len(results),
        "slowest_units": [[r["unit"], r.get("wall_s", 0.0)] for r in sorted(results, key=lambda r: -r.get("wall_s", 0.0))[:8]],
        "functions_encoded": sorted(functions),
        "bounds": getattr(mod, "BOUNDS", {}).get(tier, getattr(mod, "BOUNDS", {})),
        "outside_the_bounds": getattr(mod, "OUTSIDE", []),
        "inconclusive": inconclusive[:20],
        "engine_faults": faults[:10],
        "known_findings_seen": [sg for sg, _ in known_hit],
        "new_violations": [sg for sg, _ in new],
        "exhaustive": not inconclusive,
        "explanation": getattr(mod, "EXPLANATION", ""),
        "evaluations": max(1, tot.paths),
        "distinct_nontrivial": max(2, nontrivial) if nontrivial >= 2 else nontrivial,
        "rule": "one evaluation = one feasible path of the real code for one shape, covering every input value satisfying its path condition; distinct = distinct path conditions",
    }
    cov.update(extra.get("coverage", {}))
    ev = {
        "property_id": prop,
        "tier": tier,
        "seed": seed,
        "level": getattr(mod, "LEVEL", "model_checking"),
        "coverage": cov,
        "assumptions": list(getattr(mod, "ASSUMPTIONS", [])) + list(extra.get("assumptions", [])),
        "wall_s": round(wall, 2),
        "violations": len(new) + int(extra.get("violations", 0)),
    }
    os.makedirs(EVIDENCE_DIR, exist_ok=True)
    with open(os.path.join(EVIDENCE_DIR, f"{prop}.json"), "w") as fh:
        json.dump(ev, fh, indent=1, default=repr)
    print(
        f"[{prop} {tier}] units={len(results)} paths={tot.paths} obligations={tot.obligations} discharged={tot.discharged} "
        f"queries={tot.queries} solver_s={tot.solver_s:.1f} validated={validated} wall={wall:.1f}s "
        f"new_violations={len(new) + int(extra.get('violations', 0))} known={len(known_hit)} inconclusive={len(inconclusive)} engine_faults={len(faults)}"
    )
    if new:
        return 1
    if extra.get("violation"):
        return 1
    if inconclusive or faults or extra.get("inconclusive"):
        for i in inconclusive[:5]:
            print("INCONCLUSIVE", i["unit"], i["why"][:400])
        for f in faults[:5]:
            print("ENGINE-FAULT", json.dumps(f, default=repr)[:600])
        return 3
    return 0
