"""SX core: path exploration by re-execution with a decision trail, z3 back end.

The harness (and, through proxies, the real library code) calls `decide`, `concretize`, `assume`
and `require` on the current engine.  One `explore()` executes the harness once per feasible path.
"""
from __future__ import annotations

import time
import z3

_INT = z3.IntSort()


class PathAbort(BaseException):
    """Current path is infeasible under the assumptions (vacuous) - not an error."""


class Inconclusive(BaseException):
    """Solver said unknown / construct not modelled.  The whole check must not report success."""


class Unsupported(Inconclusive):
    pass


class PathLimit(BaseException):
    pass


class PathTimeout(BaseException):
    """Injected by the unit watchdog into a path that runs longer than the per-path limit
    (non-terminating library code never comes back to the engine on its own)."""


class PathCost(PathTimeout):
    """Raised by the engine itself where the code under test asks for big-integer arithmetic whose
    operand size is chosen by a symbolic (peer-controlled) value that the path condition lets
    exceed COST_LIMIT_BITS: `1 << n` costs time and memory linear in n, i.e. exponential in the
    number of octets that encode n.  Treated like a path that does not return: the inputs are
    confirmed on the real package in a subprocess under an address-space limit."""


COST_LIMIT_BITS = 1 << 20


class Decision:
    __slots__ = ("outcome", "forced", "flipped", "value")

    def __init__(self, outcome, forced, value=None):
        self.outcome = outcome
        self.forced = forced
        self.flipped = False
        self.value = value


class Counterexample:
    def __init__(self, label, inputs, path_index):
        self.label = label
        self.inputs = inputs
        self.path_index = path_index

    def __repr__(self):
        return f"Counterexample({self.label!r}, {self.inputs!r})"


class Stats:
    def __init__(self):
        self.paths = 0
        self.aborted = 0
        self.queries = 0
        self.sat = 0
        self.unsat = 0
        self.unknown = 0
        self.solver_s = 0.0
        self.obligations = 0
        self.discharged = 0
        self.violated = 0
        self.decisions = 0
        self.forced = 0
        self.cross_checked = 0
        self.cross_agreed = 0
        self.cross_disagreed = 0
        self.cross_other_inconclusive = 0

    def add(self, o):
        for k, v in o.__dict__.items():
            setattr(self, k, getattr(self, k) + v)

    def as_dict(self):
        d = dict(self.__dict__)
        d["solver_s"] = round(d["solver_s"], 3)
        return d


cur: "Engine" = None  # the engine proxies talk to


class Engine:
    def __init__(self, timeout_ms=30000, max_paths=None, seed=0, cross_every=0):
        self.solver = z3.Solver()
        self.solver.set("timeout", timeout_ms)
        self.solver.set("random_seed", seed & 0x7FFFFFFF)
        self.timeout_ms = timeout_ms
        self.max_paths = max_paths
        self.stats = Stats()
        self.trail = []
        self.pos = 0
        self.known = {}
        self.model = None
        self.inputs = {}        # name -> (kind, payload) registered symbolic inputs of this run
        self.fresh_ctr = 0
        self.cexs = []
        self.cvals = []
        self.cpos = 0
        self.pc = []
        self.path_log = None    # per-path observation list
        self.sym_mode = True
        self.sints = {}
        self.cross_every = cross_every
        self.cross_faults = []
        self.path_started = None
        self.timeouts = []
        self.costs = []  # inputs of paths ended by PathCost
        self.partial = None  # set by sx/hunt.py: an unmodelled operation was explored over a palette only

    # ------------------------------------------------------------------ fresh names
    def fresh(self, prefix="t"):
        self.fresh_ctr += 1
        return z3.Int(f"{prefix}!{self.fresh_ctr}")

    # ------------------------------------------------------------------ solver plumbing
    def _check(self, *extra):
        t0 = time.perf_counter()
        r = self.solver.check(*extra)
        self.stats.solver_s += time.perf_counter() - t0
        self.stats.queries += 1
        if self.cross_every and (self.stats.queries % self.cross_every == 0 or self.stats.queries in (5, 37)) and r != z3.unknown:
            self._cross_check(extra, "sat" if r == z3.sat else "unsat")
        if r == z3.sat:
            self.stats.sat += 1
            return True
        if r == z3.unsat:
            self.stats.unsat += 1
            return False
        self.stats.unknown += 1
        raise Inconclusive(f"solver returned unknown ({self.solver.reason_unknown()})")

    def _cross_check(self, extra, ours):
        """re-decide a sampled query with two other solvers (z3 4.8.12 and cvc5 binaries)"""
        import os
        import subprocess
        import tempfile

        s2 = z3.Solver()
        s2.add(self.solver.assertions())
        for e in extra:
            s2.add(e)
        text = "(set-logic ALL)\n" + s2.to_smt2()
        fd, path = tempfile.mkstemp(suffix=".smt2", prefix="sxq.")
        with os.fdopen(fd, "w") as fh:
            fh.write(text)
        try:
            for name, cmd in (("z3-4.8.12", ["/usr/bin/z3", "-smt2", "-T:20", path]), ("cvc5", ["cvc5", "--tlimit=20000", path])):
                try:
                    out = subprocess.run(cmd, capture_output=True, text=True, timeout=30).stdout
                except Exception:  # noqa: BLE001
                    out = "timeout"
                first = (out.strip().splitlines() or [""])[0].strip()
                self.stats.cross_checked += 1
                if "(error" in out or first not in ("sat", "unsat"):
                    self.stats.cross_other_inconclusive += 1
                elif first == ours:
                    self.stats.cross_agreed += 1
                else:
                    self.stats.cross_disagreed += 1
                    self.cross_faults.append({"solver": name, "ours": ours, "theirs": first, "query": text[:4000]})
        finally:
            os.unlink(path)

    def _add(self, cond):
        self.solver.add(cond)
        self.pc.append(cond)

    def axiom(self, cond):
        """Constraint that is part of the input domain (e.g. 0 <= byte < 256)."""
        self._add(cond)
        if self.model is not None:
            if not z3.is_true(self.model.eval(cond, model_completion=True)):
                self.model = None

    def get_model(self):
        if self.model is None:
            if not self._check():
                raise PathAbort()
            self.model = self.solver.model()
        return self.model

    # ------------------------------------------------------------------ decisions
    def decide(self, cond, value=None):
        """Branch on z3 Bool `cond`; returns the python bool taken on this path."""
        cond = z3.simplify(cond)
        if z3.is_true(cond):
            return True
        if z3.is_false(cond):
            return False
        key = cond.get_id()
        k = self.known.get(key)
        if k is not None:
            return k[0]
        if self.pos < len(self.trail):
            d = self.trail[self.pos]
            self.pos += 1
            out = d.outcome
            self._add(cond if out else z3.Not(cond))
            if self.model is not None and not d.forced:
                v = self.model.eval(cond, model_completion=True)
                if not ((z3.is_true(v) and out) or (z3.is_false(v) and not out)):
                    self.model = None
            self.known[key] = (out, cond)
            return out
        # new decision
        ncond = z3.Not(cond)
        t_feas = f_feas = None
        m_t = m_f = None
        if self.model is not None:
            v = self.model.eval(cond, model_completion=True)
            if z3.is_true(v):
                t_feas, m_t = True, self.model
            elif z3.is_false(v):
                f_feas, m_f = True, self.model
        if t_feas is None:
            t_feas = self._check(cond)
            if t_feas:
                m_t = self.solver.model()
        if f_feas is None:
            f_feas = self._check(ncond)
            if f_feas:
                m_f = self.solver.model()
        if not t_feas and not f_feas:
            raise PathAbort()
        self.stats.decisions += 1
        if t_feas and f_feas:
            d = Decision(True, False, value)
        else:
            self.stats.forced += 1
            d = Decision(bool(t_feas), True, value)
        self.trail.append(d)
        self.pos += 1
        out = d.outcome
        self._add(cond if out else ncond)
        self.model = m_t if out else m_f
        self.known[key] = (out, cond)
        return out

    def concretize(self, term):
        """Pick concrete values for an Int term, one path per feasible value."""
        term = z3.simplify(term)
        if z3.is_int_value(term):
            return term.as_long()
        tries = 0
        while True:
            tries += 1
            if tries > 2100:
                raise Unsupported("concretization of a term with more than 2100 feasible values")
            if self.cpos < len(self.cvals):
                v = self.cvals[self.cpos][1]
            else:
                v = self.get_model().eval(term, model_completion=True).as_long()
                self.cvals.append((len(self.trail), v))
            self.cpos += 1
            if self.decide(term == z3.IntVal(v), value=v):
                return v

    def assume(self, cond):
        """Restrict the path to `cond` (harness precondition).  Infeasible => PathAbort."""
        if isinstance(cond, bool):
            if not cond:
                raise PathAbort()
            return
        cond = z3.simplify(cond)
        if z3.is_true(cond):
            return
        if z3.is_false(cond):
            raise PathAbort()
        if self.model is not None and z3.is_true(self.model.eval(cond, model_completion=True)):
            self._add(cond)
            return
        if not self._check(cond):
            raise PathAbort()
        self.model = self.solver.model()
        self._add(cond)

    def require(self, cond, label):
        """Proof obligation.  SAT(pc and not cond) => counterexample; UNSAT => discharged."""
        self.stats.obligations += 1
        if isinstance(cond, bool):
            if cond:
                self.stats.discharged += 1
                return True
            self._violation(label, self.get_model())
            raise PathAbort()
        cond = z3.simplify(cond)
        if z3.is_true(cond):
            self.stats.discharged += 1
            return True
        if z3.is_false(cond):
            self._violation(label, self.get_model())
            raise PathAbort()
        if self._check(z3.Not(cond)):
            self._violation(label, self.solver.model())
            # keep exploring the part of the path where the obligation holds
            self.model = None
            self.assume(cond)
            return False
        self.stats.discharged += 1
        self._add(cond)
        return True

    def _violation(self, label, model):
        self.stats.violated += 1
        self.cexs.append(Counterexample(label, self.eval_inputs(model), self.stats.paths))

    # ------------------------------------------------------------------ inputs
    def register_input(self, name, kind, payload):
        self.inputs[name] = (kind, payload)

    def eval_inputs(self, model):
        out = {}
        for name, (kind, payload) in self.inputs.items():
            out[name] = eval_payload(kind, payload, model)
        return out

    # ------------------------------------------------------------------ exploration
    def explore(self, fn, on_path=None):
        """Run fn() once per feasible path.  on_path(status, result, engine) after each."""
        global cur
        self.trail = []
        self.cvals = []
        prev = cur
        cur = self
        try:
            while True:
                self.pos = 0
                self.cpos = 0
                self.known = {}
                self.model = None
                self.inputs = {}
                self.fresh_ctr = 0
                self.pc = []
                self.path_log = []
                self.sints = {}
                self.solver.push()
                status, result = "ok", None
                self.path_started = time.time()
                try:
                    try:
                        result = fn()
                    except PathAbort:
                        status = "abort"
                        self.stats.aborted += 1
                    except PathTimeout as pt:
                        # the code under test did not come back: keep the inputs of this path
                        self.path_started = None
                        status = "timeout"
                        dest = self.costs if isinstance(pt, PathCost) else self.timeouts
                        try:
                            dest.append(self.eval_inputs(self.get_model()))
                        except BaseException:  # noqa: BLE001
                            dest.append(None)
                    self.stats.paths += 1
                    if status != "timeout":
                        if self.pos != len(self.trail):
                            raise Inconclusive("non-deterministic replay: trail not consumed")
                        if on_path is not None:
                            try:
                                on_path(status, result, self)
                            except PathTimeout:
                                # the concrete validation run on the real package did not come back
                                status = "timeout"
                                try:
                                    self.timeouts.append(self.eval_inputs(self.get_model()))
                                except BaseException:  # noqa: BLE001
                                    self.timeouts.append(None)
                finally:
                    self.path_started = None
                    self.solver.pop()
                if status == "timeout":
                    # one such path is enough for the unit: it is reported (after confirmation on the
                    # real package) or makes the unit inconclusive; do not burn the budget on siblings
                    break
                if self.max_paths and self.stats.paths >= self.max_paths:
                    raise PathLimit(f"more than {self.max_paths} paths")
                while self.trail and (self.trail[-1].forced or self.trail[-1].flipped):
                    self.trail.pop()
                if not self.trail:
                    break
                d = self.trail[-1]
                d.outcome = not d.outcome
                d.flipped = True
                while self.cvals and self.cvals[-1][0] >= len(self.trail):
                    self.cvals.pop()
        finally:
            cur = prev
        return self.stats


def eval_payload(kind, payload, model):
    def ev(t):
        if isinstance(t, int):
            return t
        return model.eval(t, model_completion=True).as_long()

    if kind == "int":
        return ev(payload)
    if kind == "bool":
        if isinstance(payload, bool):
            return payload
        return z3.is_true(model.eval(payload, model_completion=True))
    if kind == "bytes":
        return bytes(ev(t) for t in payload)
    if kind == "str":
        return "".join(chr(ev(t)) for t in payload)
    if kind == "const":
        return payload
    raise ValueError(kind)
