"""Symbolic booleans and integers.

SInt is *lazy*: arithmetic builds a small Python-level DAG; the z3 term is only produced when a
comparison / decision / obligation needs it.  Every SInt also carries an interval [lo, hi] and a
stride (value = r mod m) that are implied by the path condition.  When a branch is taken on a
comparison the operands' intervals are refined *in place* (sound: the object lives on this path
only), so values pinned by the path (a loop bound once the loop has exited, a tag octet once it has
been compared) fold to concrete ints before any term is built.
"""
from __future__ import annotations

import builtins
import math
import z3

from . import core
from .core import Unsupported

_real_int = builtins.int
_real_bool = builtins.bool
_real_isinstance = builtins.isinstance
_real_len = builtins.len

PLACEHOLDER = "⟨sx⟩"


def E():
    return core.cur


def is_term(x):
    return _real_isinstance(x, z3.ExprRef)


_INTVALS = {}


def intval(c):
    v = _INTVALS.get(c)
    if v is None:
        v = z3.IntVal(c)
        if -1024 <= c <= 65536:
            _INTVALS[c] = v
    return v


# ====================================================================== booleans
class SBool:
    __slots__ = ("t", "src")

    def __init__(self, t, src=None):
        self.t = t
        self.src = src

    def __bool__(self):
        out = E().decide(self.t)
        if self.src is not None:
            _refine(self.src, out)
        return out

    def __eq__(self, o):
        if _real_isinstance(o, SBool):
            return mk_bool(self.t == o.t)
        if _real_isinstance(o, _real_bool):
            return self if o else mk_bool(z3.Not(self.t))
        if _real_isinstance(o, (_real_int, SInt)):
            return as_sint(self) == o
        return False

    def __ne__(self, o):
        return snot(self.__eq__(o))

    def __hash__(self):
        return hash(_real_bool(self))

    def __and__(self, o):
        if _real_isinstance(o, (SBool, _real_bool)):
            return sand(self, o)
        return as_sint(self) & o

    __rand__ = __and__

    def __or__(self, o):
        if _real_isinstance(o, (SBool, _real_bool)):
            return sor(self, o)
        return as_sint(self) | o

    __ror__ = __or__

    def __invert__(self):
        return ~as_sint(self)

    def __int__(self):
        return 1 if _real_bool(self) else 0

    __index__ = __int__

    def __add__(self, o):
        return as_sint(self) + o

    __radd__ = __add__

    def __sub__(self, o):
        return as_sint(self) - o

    def __rsub__(self, o):
        return o - as_sint(self)

    def __lshift__(self, o):
        return as_sint(self) << o

    def __mul__(self, o):
        return as_sint(self) * o

    __rmul__ = __mul__

    def __repr__(self):
        return PLACEHOLDER

    __str__ = __repr__

    def __format__(self, spec):
        return PLACEHOLDER

    def __deepcopy__(self, memo):
        return self


def mk_bool(t, src=None):
    if _real_isinstance(t, _real_bool):
        return t
    t = z3.simplify(t)
    if z3.is_true(t):
        return True
    if z3.is_false(t):
        return False
    return SBool(t, src)


def bterm(b):
    if _real_isinstance(b, SBool):
        return b.t
    if _real_isinstance(b, _real_bool):
        return z3.BoolVal(b)
    if is_term(b):
        return b
    if _real_isinstance(b, (SInt, _real_int)):
        return iterm(b) != 0
    raise TypeError(f"not a boolean: {type(b)}")


def sand(*bs):
    ts = []
    for b in bs:
        if _real_isinstance(b, _real_bool):
            if not b:
                return False
            continue
        ts.append(bterm(b))
    if not ts:
        return True
    return mk_bool(z3.And(*ts) if _real_len(ts) > 1 else ts[0])


def sor(*bs):
    ts = []
    for b in bs:
        if _real_isinstance(b, _real_bool):
            if b:
                return True
            continue
        ts.append(bterm(b))
    if not ts:
        return False
    return mk_bool(z3.Or(*ts) if _real_len(ts) > 1 else ts[0])


def snot(b):
    if _real_isinstance(b, _real_bool):
        return not b
    if b is NotImplemented:
        return NotImplemented
    if _real_isinstance(b, SBool) and b.src is not None:
        a, op, c = b.src
        inv = {"lt": "ge", "le": "gt", "gt": "le", "ge": "lt", "eq": "ne", "ne": "eq"}[op]
        return mk_bool(z3.Not(b.t), (a, inv, c))
    return mk_bool(z3.Not(bterm(b)))


def simplies(a, b):
    return sor(snot(a), b)


def site(c, a, b):
    if _real_isinstance(c, _real_bool):
        return a if c else b
    la, ha = bounds(a)
    lb, hb = bounds(b)
    lo = None if la is None or lb is None else min(la, lb)
    hi = None if ha is None or hb is None else max(ha, hb)
    return mk_lazy("ite", (c, a, b), lo, hi)


# ====================================================================== refinement
def _refine(src, out):
    """tighten operand intervals after branching on  a <op> b  with outcome `out`"""
    a, op, b = src
    if not out:
        op = {"lt": "ge", "le": "gt", "gt": "le", "ge": "lt", "eq": "ne", "ne": "eq"}[op]
    if op == "gt":
        a, b, op = b, a, "lt"
    elif op == "ge":
        a, b, op = b, a, "le"
    alo, ahi = bounds(a)
    blo, bhi = bounds(b)
    if op == "lt":  # a < b
        if bhi is not None:
            _set_hi(a, bhi - 1)
        if alo is not None:
            _set_lo(b, alo + 1)
    elif op == "le":
        if bhi is not None:
            _set_hi(a, bhi)
        if alo is not None:
            _set_lo(b, alo)
    elif op == "eq":
        if blo is not None:
            _set_lo(a, blo)
        if bhi is not None:
            _set_hi(a, bhi)
        if alo is not None:
            _set_lo(b, alo)
        if ahi is not None:
            _set_hi(b, ahi)
    elif op == "ne":
        for x, y in ((a, b), (b, a)):
            ylo, yhi = bounds(y)
            if ylo is not None and ylo == yhi and _real_isinstance(x, SInt):
                exclude(x, ylo)


def exclude(x, c):
    """x != c is known on this path"""
    if x.lo is not None and x.lo == c:
        x.lo += 1
        while x.excl and x.lo in x.excl:
            x.lo += 1
    elif x.hi is not None and x.hi == c:
        x.hi -= 1
        while x.excl and x.hi in x.excl:
            x.hi -= 1
    else:
        if x.excl is None:
            x.excl = set()
        if _real_len(x.excl) < 64:
            x.excl.add(c)


def _set_lo(x, v):
    if _real_isinstance(x, SInt) and (x.lo is None or v > x.lo):
        x.lo = v


def _set_hi(x, v):
    if _real_isinstance(x, SInt) and (x.hi is None or v < x.hi):
        x.hi = v


# ====================================================================== integers
def pinned(x):
    return x.lo is not None and x.lo == x.hi


def norm(x):
    """operand -> python int when its value is known, else the proxy"""
    if _real_isinstance(x, SInt):
        if x.lo is not None and x.lo == x.hi:
            return x.lo
        return x
    if _real_isinstance(x, _real_bool):
        return 1 if x else 0
    if _real_isinstance(x, _real_int):
        return _real_int(x)
    if _real_isinstance(x, SBool):
        return as_sint(x)
    raise TypeError(f"not an integer: {type(x)}")


def iterm(x):
    if _real_isinstance(x, SInt):
        return x.t
    if _real_isinstance(x, _real_bool):
        return intval(1 if x else 0)
    if _real_isinstance(x, _real_int):
        return intval(_real_int(x))
    if _real_isinstance(x, SBool):
        return z3.If(x.t, intval(1), intval(0))
    if is_term(x):
        return x
    raise TypeError(f"not an integer: {type(x)}")


def bounds(x):
    if _real_isinstance(x, SInt):
        return x.lo, x.hi
    if _real_isinstance(x, SBool):
        return 0, 1
    if _real_isinstance(x, _real_int):
        return _real_int(x), _real_int(x)
    return None, None


def stride(x):
    if _real_isinstance(x, SInt):
        return x.m, x.r
    if _real_isinstance(x, SBool):
        return 1, 0
    if _real_isinstance(x, _real_int):
        return 0, _real_int(x)  # m == 0: constant
    return 1, 0


def mk_int(t, lo=None, hi=None, m=1, r=0):
    """from a z3 term"""
    if _real_isinstance(t, _real_int):
        return t
    if z3.is_int_value(t):
        return t.as_long()
    if lo is not None and lo == hi:
        return lo
    return SInt(t, lo, hi, m, r)


def mk_lazy(op, args, lo=None, hi=None, m=1, r=0):
    if lo is not None and lo == hi:
        return lo
    x = SInt(None, lo, hi, m, r)
    x.op = op
    x.args = args
    return x


def as_sint(x):
    if _real_isinstance(x, SInt):
        return x
    if _real_isinstance(x, SBool):
        return SInt(z3.If(x.t, intval(1), intval(0)), 0, 1)
    raise TypeError


def _num(o):
    return _real_isinstance(o, (_real_int, SInt, SBool))


def _add_b(a, b):
    return None if a is None or b is None else a + b


def _pow2_index(c):
    if c > 0 and (c & (c + 1)) == 0:
        return c.bit_length()
    return None


def materialise(x):
    """z3 term of a lazy SInt (iterative post-order with memo in the nodes)"""
    stack = [x]
    while stack:
        n = stack[-1]
        if n._t is not None:
            stack.pop()
            continue
        if n.lo is not None and n.lo == n.hi:
            n._t = intval(n.lo)
            stack.pop()
            continue
        pend = [
            a for a in n.args if _real_isinstance(a, SInt) and a._t is None and not (a.lo is not None and a.lo == a.hi)
        ]
        if pend:
            stack.extend(pend)
            continue
        n._t = _build(n)
        stack.pop()
    return x._t


def _tm(a):
    """term of an operand whose lazy parts are already materialised"""
    if _real_isinstance(a, SInt):
        if a.lo is not None and a.lo == a.hi:
            return intval(a.lo)
        return a._t if a._t is not None else materialise(a)
    return iterm(a)


def _build(n):
    op, a = n.op, n.args
    if op == "add":
        return _tm(a[0]) + _tm(a[1])
    if op == "neg":
        return -_tm(a[0])
    if op == "mul":
        return _tm(a[0]) * _tm(a[1])
    if op == "div":
        return _tm(a[0]) / intval(a[1])
    if op == "mod":
        return _tm(a[0]) % intval(a[1])
    if op == "ite":
        return z3.If(a[0].t, _tm(a[1]), _tm(a[2]))
    if op == "abs":
        t = _tm(a[0])
        return z3.If(t < 0, -t, t)
    if op in ("shl", "shr"):
        return _shift_term(n, a[0], a[1], op == "shl")
    if op == "band":
        x, y, nb = a
        tx, ty = _tm(x), _tm(y)
        return z3.Sum(
            [
                z3.If(z3.And((tx / (1 << i)) % 2 == 1, (ty / (1 << i)) % 2 == 1), intval(1 << i), intval(0))
                for i in range(nb)
            ]
        )
    raise AssertionError(op)


class SInt:
    __slots__ = ("_t", "op", "args", "lo", "hi", "m", "r", "excl")

    def __init__(self, t, lo=None, hi=None, m=1, r=0):
        self._t = t
        self.excl = None  # small set of constants the value is known to differ from
        self.op = None
        self.args = None
        self.lo = lo
        self.hi = hi
        self.m = m if m else 1
        self.r = r % self.m if self.m else r

    @property
    def t(self):
        if self._t is None:
            materialise(self)
        return self._t

    # ---- conversions
    def __bool__(self):
        if self.lo is not None and self.lo > 0:
            return True
        if self.hi is not None and self.hi < 0:
            return True
        if self.lo is not None and self.lo == self.hi:
            return self.lo != 0
        return _real_bool(self != 0)

    def __index__(self):
        if self.lo is not None and self.lo == self.hi:
            return self.lo
        v = E().concretize(self.t)
        self.lo = self.hi = v
        return v

    __int__ = __index__

    def __hash__(self):
        return hash(self.__index__())

    def __repr__(self):
        return PLACEHOLDER

    __str__ = __repr__

    def __format__(self, spec):
        return PLACEHOLDER

    def __deepcopy__(self, memo):
        return self  # a value

    def __copy__(self):
        return self

    # ---- comparisons
    def _cmp(self, o, op):
        if not _num(o):
            return NotImplemented
        if _real_isinstance(o, SBool):
            o = as_sint(o)
        lo, hi = self.lo, self.hi
        olo, ohi = bounds(o)
        if op == "lt":
            if hi is not None and olo is not None and hi < olo:
                return True
            if lo is not None and ohi is not None and lo >= ohi:
                return False
            return mk_bool(self.t < iterm(o), (self, "lt", o))
        if op == "le":
            if hi is not None and olo is not None and hi <= olo:
                return True
            if lo is not None and ohi is not None and lo > ohi:
                return False
            return mk_bool(self.t <= iterm(o), (self, "le", o))
        if op == "gt":
            if lo is not None and ohi is not None and lo > ohi:
                return True
            if hi is not None and olo is not None and hi <= olo:
                return False
            return mk_bool(self.t > iterm(o), (self, "gt", o))
        if op == "ge":
            if lo is not None and ohi is not None and lo >= ohi:
                return True
            if hi is not None and olo is not None and hi < olo:
                return False
            return mk_bool(self.t >= iterm(o), (self, "ge", o))
        if op == "eq":
            if (hi is not None and olo is not None and hi < olo) or (lo is not None and ohi is not None and lo > ohi):
                return False
            if lo is not None and lo == hi and olo is not None and olo == ohi:
                return lo == olo
            m2, r2 = stride(o)
            if m2 == 0 and self.m > 1 and (r2 - self.r) % self.m != 0:
                return False
            if m2 == 0 and self.excl is not None and r2 in self.excl:
                return False
            return mk_bool(self.t == iterm(o), (self, "eq", o))
        raise AssertionError(op)

    def __lt__(self, o):
        return self._cmp(o, "lt")

    def __le__(self, o):
        return self._cmp(o, "le")

    def __gt__(self, o):
        return self._cmp(o, "gt")

    def __ge__(self, o):
        return self._cmp(o, "ge")

    def __eq__(self, o):
        if not _num(o):
            return False
        return self._cmp(o, "eq")

    def __ne__(self, o):
        if not _num(o):
            return True
        return snot(self._cmp(o, "eq"))

    # ---- arithmetic (lazy)
    def __add__(self, o):
        if not _num(o):
            return NotImplemented
        a, b = norm(self), norm(o)
        if _real_isinstance(a, _real_int) and _real_isinstance(b, _real_int):
            return a + b
        if _real_isinstance(b, _real_int) and b == 0:
            return a
        if _real_isinstance(a, _real_int) and a == 0:
            return b
        la, ha = bounds(a)
        lb, hb = bounds(b)
        m1, r1 = stride(a)
        m2, r2 = stride(b)
        return mk_lazy("add", (a, b), _add_b(la, lb), _add_b(ha, hb), math.gcd(m1, m2), r1 + r2)

    __radd__ = __add__

    def __neg__(self):
        a = norm(self)
        if _real_isinstance(a, _real_int):
            return -a
        return mk_lazy(
            "neg", (a,), None if a.hi is None else -a.hi, None if a.lo is None else -a.lo, a.m, -a.r
        )

    def __pos__(self):
        return self

    def __abs__(self):
        a = norm(self)
        if _real_isinstance(a, _real_int):
            return abs(a)
        if a.lo is not None and a.lo >= 0:
            return a
        if a.hi is not None and a.hi <= 0:
            return -a
        hi = None if a.lo is None or a.hi is None else max(-a.lo, a.hi)
        return mk_lazy("abs", (a,), 0, hi)

    def __sub__(self, o):
        if not _num(o):
            return NotImplemented
        if _real_isinstance(o, SBool):
            o = as_sint(o)
        return self + (-o)

    def __rsub__(self, o):
        if not _num(o):
            return NotImplemented
        return (-self) + o

    def __mul__(self, o):
        if not _num(o):
            if hasattr(o, "__len__"):
                k = cost_guard(self, "repetition by")
                return o * (k if _real_isinstance(k, _real_int) else k.__index__())
            return NotImplemented
        a, b = norm(self), norm(o)
        if _real_isinstance(a, _real_int):
            a, b = b, a
        if _real_isinstance(a, _real_int):
            return a * b
        if _real_isinstance(b, _real_int):
            c = b
            if c == 0:
                return 0
            if c == 1:
                return a
            lo = None if a.lo is None else a.lo * c
            hi = None if a.hi is None else a.hi * c
            if c < 0:
                lo, hi = hi, lo
            return mk_lazy("mul", (a, c), lo, hi, a.m * abs(c), a.r * c)
        lo = hi = None
        if None not in (a.lo, a.hi, b.lo, b.hi):
            cs = [a.lo * b.lo, a.lo * b.hi, a.hi * b.lo, a.hi * b.hi]
            lo, hi = min(cs), max(cs)
        return mk_lazy("mul", (a, b), lo, hi)

    __rmul__ = __mul__

    def __floordiv__(self, o):
        a, b = norm(self), norm(o)
        if _real_isinstance(b, _real_int):
            if b == 0:
                raise ZeroDivisionError("integer division or modulo by zero")
            if _real_isinstance(a, _real_int):
                return a // b
            if b < 0:
                return (-a) // (-b)
            if b == 1:
                return a
            lo = None if a.lo is None else a.lo // b
            hi = None if a.hi is None else a.hi // b
            return mk_lazy("div", (a, b), lo, hi)
        raise Unsupported("floordiv by a symbolic divisor")

    def __rfloordiv__(self, o):
        b = norm(self)
        if _real_isinstance(b, _real_int):
            return o // b
        raise Unsupported("floordiv by a symbolic divisor")

    def __mod__(self, o):
        a, b = norm(self), norm(o)
        if _real_isinstance(b, _real_int):
            if _real_isinstance(a, _real_int):
                return a % b
            if b > 0:
                if a.lo is not None and a.hi is not None and 0 <= a.lo and a.hi < b:
                    return a
                if a.m > 1 and a.m % b == 0:
                    return a.r % b
                return mk_lazy("mod", (a, b), 0, b - 1)
        raise Unsupported("mod by a symbolic / non-positive divisor")

    def __rmod__(self, o):
        b = norm(self)
        if _real_isinstance(b, _real_int):
            return o % b
        raise Unsupported("mod by a symbolic divisor")

    def __divmod__(self, o):
        return self // o, self % o

    def __lshift__(self, o):
        return _shift(self, o, True)

    def __rlshift__(self, o):
        return _shift(o, self, True)

    def __rshift__(self, o):
        return _shift(self, o, False)

    def __rrshift__(self, o):
        return _shift(o, self, False)

    def __and__(self, o):
        if not _num(o):
            return NotImplemented
        a, b = norm(self), norm(o)
        if _real_isinstance(a, _real_int):
            a, b = b, a
        if _real_isinstance(a, _real_int):
            return a & b
        if _real_isinstance(b, _real_int):
            c = b
            if c < 0:
                raise Unsupported("& with a negative constant")
            if c == 0:
                return 0
            k = _pow2_index(c)
            if k is not None:
                return a % (1 << k)
            bits = [i for i in range(c.bit_length()) if (c >> i) & 1]
            runs = []
            for i in bits:
                if runs and runs[-1][1] == i - 1:
                    runs[-1][1] = i
                else:
                    runs.append([i, i])
            out = 0
            for lo_, hi_ in runs:
                n = hi_ - lo_ + 1
                out = out + ((a // (1 << lo_)) % (1 << n)) * (1 << lo_)
            return out
        nb = _common_bits(a, b)
        his = [h for h in (a.hi, b.hi) if h is not None]
        return mk_lazy("band", (a, b, nb), 0, min(his))

    __rand__ = __and__

    def __or__(self, o):
        if not _num(o):
            return NotImplemented
        a, b = norm(self), norm(o)
        if _real_isinstance(a, _real_int) and _real_isinstance(b, _real_int):
            return a | b
        if _disjoint_bits(a, b) or _disjoint_bits(b, a):
            return a + b
        if _real_isinstance(a, _real_int):
            a, b = b, a
        r = a + b - (a & b)
        if _real_isinstance(r, SInt):
            lo1, hi1 = bounds(a)
            lo2, hi2 = bounds(b)
            if lo1 is not None and lo2 is not None and lo1 >= 0 and lo2 >= 0:
                r.lo = max(lo1, lo2) if r.lo is None else max(r.lo, lo1, lo2)
                if hi1 is not None and hi2 is not None:
                    h = (1 << max(hi1.bit_length(), hi2.bit_length())) - 1
                    r.hi = h if r.hi is None else min(r.hi, h)
        return r

    __ror__ = __or__

    def __xor__(self, o):
        if not _num(o):
            return NotImplemented
        a, b = norm(self), norm(o)
        if _real_isinstance(a, _real_int) and _real_isinstance(b, _real_int):
            return a ^ b
        if _real_isinstance(a, _real_int):
            a, b = b, a
        return a + b - (a & b) * 2

    __rxor__ = __xor__

    def __invert__(self):
        return -self - 1

    def __pow__(self, o):
        a = norm(self)
        if _real_isinstance(a, _real_int):
            return a**o
        raise Unsupported("pow on a symbolic int")

    def __rpow__(self, o):
        k = cost_guard(self, "power with")
        if _real_isinstance(k, _real_int):
            return o**k
        if _real_isinstance(o, _real_int) and o == 2:
            return _shift(1, k, True)
        raise Unsupported("pow with a symbolic exponent")

    def __truediv__(self, o):
        raise Unsupported("true division on a symbolic int")

    def bit_length(self):
        """forks on the magnitude (one path per bit length)"""
        a = norm(self)
        if _real_isinstance(a, _real_int):
            return a.bit_length()
        v = abs(a)
        if _real_isinstance(v, _real_int):
            return v.bit_length()
        k = 0
        while True:
            if v.hi is not None and v.hi < (1 << k):
                return k
            if _real_bool(v < (1 << k)):
                return k
            k += 1
            if k > 4200:
                raise Unsupported("bit_length of a very large symbolic int")

    def to_bytes(self, length=1, byteorder="big", *, signed=False):
        from . import values as V

        a = norm(self)
        if _real_isinstance(a, _real_int):
            return a.to_bytes(length, byteorder, signed=signed)
        length = length.__index__()
        if signed:
            lo, hi = -(1 << (8 * length - 1)) if length else 0, (1 << (8 * length - 1)) - 1 if length else 0
        else:
            lo, hi = 0, (1 << (8 * length)) - 1
        if not (_real_bool(a >= lo) and _real_bool(a <= hi)):
            raise OverflowError("int too big to convert" if not _real_bool(a < 0) else "can't convert negative int to unsigned")
        u = a if not signed else site(a < 0, a + (1 << (8 * length)), a)
        items = [V.byte_item((u // (1 << (8 * (length - 1 - i)))) % 256) for i in range(length)]
        if byteorder == "little":
            items.reverse()
        return V.mk_bytes(items)

    @property
    def value(self):
        return self

    @property
    def real(self):
        return self


def _disjoint_bits(a, b):
    """a is a multiple of 2^k and 0 <= b < 2^k"""
    m, r = stride(a)
    lo, hi = bounds(b)
    if lo is None or hi is None or lo < 0:
        return False
    if m == 0:
        if r < 0:
            return False
        if r == 0:
            return True
        return hi < (r & -r)
    if r % m != 0:
        return False
    return hi < (m & -m)


def _common_bits(a, b):
    his = []
    for x in (a, b):
        if x.lo is None or x.lo < 0:
            raise Unsupported("bitwise operation with a possibly negative symbolic int")
        if x.hi is not None:
            his.append(x.hi)
    if not his:
        raise Unsupported("bitwise operation between two unbounded symbolic ints")
    return max(1, min(his).bit_length())


def cost_guard(k, what):
    """cost obligation: an operation whose result has as many bits / items as the symbolic value k
    (x << k, 2 ** k, bytes(k), seq * k).  Decide (solver) whether the path lets k exceed the limit;
    if so the path ends as a cost blow-up (largest class first, so that the witness is one the real
    package can be seen to choke on).  Returns k, refined to <= COST_LIMIT_BITS."""
    k = norm(k)
    if _real_isinstance(k, _real_int) or not _real_isinstance(k, SInt):
        return k
    if k.hi is None or k.hi > core.COST_LIMIT_BITS:
        for thr in (1 << 40, 1 << 34, core.COST_LIMIT_BITS):
            if _real_bool(k > thr):
                raise core.PathCost(f"{what} a symbolic amount that can exceed 2**{thr.bit_length() - 1}")
        k = norm(k)
    return k


def _shift(val, amt, left):
    if not _num(val) or not _num(amt):
        return NotImplemented
    v, k = norm(val), norm(amt)
    if _real_isinstance(k, _real_int):
        if k < 0:
            raise ValueError("negative shift count")
        if _real_isinstance(v, _real_int):
            return (v << k) if left else (v >> k)
        return v * (1 << k) if left else v // (1 << k)
    # symbolic amount
    if k.lo is None or k.lo < 0:
        if _real_bool(k < 0):
            raise ValueError("negative shift count")
        k = norm(k)
        if _real_isinstance(k, _real_int):
            return _shift(v, k, left)
    if _real_isinstance(v, _real_int) and v == 0:
        return 0
    if left:
        k = cost_guard(k, "left shift by")
        if _real_isinstance(k, _real_int):
            return _shift(v, k, left)
    if k.hi is None:
        raise Unsupported("shift by an unbounded symbolic amount")
    lo, hi = max(0, k.lo or 0), k.hi
    vlo, vhi = bounds(v)
    if left:
        rlo = None if vlo is None else (vlo << lo if vlo >= 0 else vlo << hi)
        rhi = None if vhi is None else (vhi << hi if vhi >= 0 else vhi << lo)
    else:
        rlo = None if vlo is None else (vlo >> hi if vlo >= 0 else vlo >> lo)
        rhi = None if vhi is None else (vhi >> lo if vhi >= 0 else vhi >> hi)
    return mk_lazy("shl" if left else "shr", (v, k), rlo, rhi)


_SHIFT_TPL = {}


def _shift_term(node, v, k, left):
    """z3 term for v << k / v >> k at materialisation time (k's interval may have been refined)"""
    k = norm(k)
    if _real_isinstance(k, _real_int):
        return _tm(v) * intval(1 << k) if left else _tm(v) / intval(1 << k)
    lo, hi = max(0, k.lo or 0), k.hi
    cands = [c for c in range(lo, hi + 1) if k.m <= 1 or c % k.m == k.r % k.m]
    if _real_len(cands) > 1100:
        raise Unsupported(f"shift amount with {_real_len(cands)} candidates")
    key = (tuple(cands) if _real_len(cands) < 8 else (cands[0], cands[-1], _real_len(cands)), left)
    tpl = _SHIFT_TPL.get(key)
    if tpl is None:
        X, A = z3.Int("sx!shiftX"), z3.Int("sx!shiftA")
        t = None
        for c in reversed(cands):
            x = X * (1 << c) if left else X / (1 << c)
            t = x if t is None else z3.If(A == c, x, t)
        tpl = _SHIFT_TPL[key] = (t, X, A)
    return z3.substitute(tpl[0], (tpl[1], _tm(v)), (tpl[2], _tm(k)))


def sym_int(name, lo=None, hi=None):
    e = E()
    t = z3.Int(name)
    if lo is not None:
        e.axiom(t >= lo)
    if hi is not None:
        e.axiom(t <= hi)
    e.register_input(name, "int", t)
    return SInt(t, lo, hi)


def sym_bool(name):
    e = E()
    t = z3.Bool(name)
    e.register_input(name, "bool", t)
    return SBool(t)
