"""SX proxies: symbolic ints / bools / byte strings / text with concrete shape.

Invariants: every element of a byte proxy lies in 0..255 and every element of a text proxy is a
code point 0..0x10FFFF under the current path condition.  Results that are fully concrete are
returned as the genuine builtin objects.
"""
from __future__ import annotations

import builtins
import math
import z3

from . import core
from .core import Unsupported

_real_int = builtins.int
_real_bool = builtins.bool
_real_bytes = builtins.bytes
_real_str = builtins.str
_real_isinstance = builtins.isinstance
_real_len = builtins.len
_real_slice = builtins.slice

PLACEHOLDER = "⟨sx⟩"


def E():
    return core.cur


def is_term(x):
    return _real_isinstance(x, z3.ExprRef)


# ====================================================================== booleans
class SBool:
    __slots__ = ("t",)

    def __init__(self, t):
        self.t = t

    def __bool__(self):
        return E().decide(self.t)

    def __eq__(self, o):
        if _real_isinstance(o, SBool):
            return mk_bool(self.t == o.t)
        if _real_isinstance(o, _real_bool):
            return self if o else mk_bool(z3.Not(self.t))
        if _real_isinstance(o, (_real_int, SInt)):
            return as_sint(self) == o
        return False

    def __ne__(self, o):
        r = self.__eq__(o)
        return snot(r)

    def __hash__(self):
        return hash(_real_bool(self))

    def __and__(self, o):
        if _real_isinstance(o, (SBool, _real_bool)):
            return sand(self, o)
        return as_sint(self) & o

    __rand__ = __and__

    def __or__(self, o):
        if _real_isinstance(o, (SBool, _real_bool)):
            return sor(self, o)
        return as_sint(self) | o

    __ror__ = __or__

    def __invert__(self):
        return ~as_sint(self)

    def __int__(self):
        return 1 if _real_bool(self) else 0

    __index__ = __int__

    def __add__(self, o):
        return as_sint(self) + o

    __radd__ = __add__

    def __lshift__(self, o):
        return as_sint(self) << o

    def __mul__(self, o):
        return as_sint(self) * o

    __rmul__ = __mul__

    def __repr__(self):
        return PLACEHOLDER

    __str__ = __repr__

    def __format__(self, spec):
        return PLACEHOLDER


def mk_bool(t):
    if _real_isinstance(t, _real_bool):
        return t
    t = z3.simplify(t)
    if z3.is_true(t):
        return True
    if z3.is_false(t):
        return False
    return SBool(t)


def bterm(b):
    """z3 Bool for a python bool / SBool / z3 term."""
    if _real_isinstance(b, SBool):
        return b.t
    if _real_isinstance(b, _real_bool):
        return z3.BoolVal(b)
    if is_term(b):
        return b
    if _real_isinstance(b, (SInt, _real_int)):
        return iterm(b) != 0
    raise TypeError(f"not a boolean: {type(b)}")


def sand(*bs):
    ts = []
    for b in bs:
        if _real_isinstance(b, _real_bool):
            if not b:
                return False
            continue
        ts.append(bterm(b))
    if not ts:
        return True
    return mk_bool(z3.And(*ts) if len(ts) > 1 else ts[0])


def sor(*bs):
    ts = []
    for b in bs:
        if _real_isinstance(b, _real_bool):
            if b:
                return True
            continue
        ts.append(bterm(b))
    if not ts:
        return False
    return mk_bool(z3.Or(*ts) if len(ts) > 1 else ts[0])


def snot(b):
    if _real_isinstance(b, _real_bool):
        return not b
    if b is NotImplemented:
        return NotImplemented
    return mk_bool(z3.Not(bterm(b)))


def simplies(a, b):
    return sor(snot(a), b)


def site(c, a, b):
    """if-then-else over ints."""
    if _real_isinstance(c, _real_bool):
        return a if c else b
    ta, tb = iterm(a), iterm(b)
    la, ha = bounds(a)
    lb, hb = bounds(b)
    lo = None if la is None or lb is None else min(la, lb)
    hi = None if ha is None or hb is None else max(ha, hb)
    return mk_int(z3.If(bterm(c), ta, tb), lo, hi)


# ====================================================================== integers
def iterm(x):
    if _real_isinstance(x, SInt):
        return x.t
    if _real_isinstance(x, _real_bool):
        return z3.IntVal(1 if x else 0)
    if _real_isinstance(x, _real_int):
        return z3.IntVal(_real_int(x))
    if _real_isinstance(x, SBool):
        return z3.If(x.t, z3.IntVal(1), z3.IntVal(0))
    if is_term(x):
        return x
    raise TypeError(f"not an integer: {type(x)}")


def bounds(x):
    if _real_isinstance(x, SInt):
        return x.lo, x.hi
    if _real_isinstance(x, SBool):
        return 0, 1
    if _real_isinstance(x, _real_int):
        return _real_int(x), _real_int(x)
    return None, None


def stride(x):
    if _real_isinstance(x, SInt):
        return x.m, x.r
    if _real_isinstance(x, SBool):
        return 1, 0
    if _real_isinstance(x, _real_int):
        return 0, _real_int(x)  # m == 0: constant
    return 1, 0


def mk_int(t, lo=None, hi=None, m=1, r=0):
    if _real_isinstance(t, _real_int):
        return t
    t = z3.simplify(t)
    if z3.is_int_value(t):
        return t.as_long()
    if lo is not None and hi is not None and lo == hi:
        # value pinned by the abstract domain
        return lo
    return SInt(t, lo, hi, m, r)


def as_sint(x):
    if _real_isinstance(x, SInt):
        return x
    if _real_isinstance(x, SBool):
        return SInt(z3.If(x.t, z3.IntVal(1), z3.IntVal(0)), 0, 1)
    raise TypeError


def _num(o):
    return _real_isinstance(o, (_real_int, SInt, SBool))


def _add_b(a, b):
    return None if a is None or b is None else a + b


def _pow2_index(c):
    """k if c == 2**k - 1 (k >= 1) else None"""
    if c > 0 and (c & (c + 1)) == 0:
        return c.bit_length()
    return None


class SInt:
    __slots__ = ("t", "lo", "hi", "m", "r")

    def __init__(self, t, lo=None, hi=None, m=1, r=0):
        self.t = t
        self.lo = lo
        self.hi = hi
        self.m = m if m else 1
        self.r = r % self.m if self.m else r

    # ---- conversions
    def __bool__(self):
        if self.lo is not None and self.lo > 0:
            return True
        if self.hi is not None and self.hi < 0:
            return True
        return E().decide(self.t != 0)

    def __index__(self):
        return E().concretize(self.t)

    __int__ = __index__

    def __hash__(self):
        return hash(E().concretize(self.t))

    def __repr__(self):
        return PLACEHOLDER

    __str__ = __repr__

    def __format__(self, spec):
        return PLACEHOLDER

    # ---- comparisons
    def _cmp(self, o, op):
        if not _num(o):
            return NotImplemented
        lo, hi = self.lo, self.hi
        olo, ohi = bounds(o)
        if op == "lt":
            if hi is not None and olo is not None and hi < olo:
                return True
            if lo is not None and ohi is not None and lo >= ohi:
                return False
            return mk_bool(self.t < iterm(o))
        if op == "le":
            if hi is not None and olo is not None and hi <= olo:
                return True
            if lo is not None and ohi is not None and lo > ohi:
                return False
            return mk_bool(self.t <= iterm(o))
        if op == "gt":
            if lo is not None and ohi is not None and lo > ohi:
                return True
            if hi is not None and olo is not None and hi <= olo:
                return False
            return mk_bool(self.t > iterm(o))
        if op == "ge":
            if lo is not None and ohi is not None and lo >= ohi:
                return True
            if hi is not None and olo is not None and hi < olo:
                return False
            return mk_bool(self.t >= iterm(o))
        if op == "eq":
            if (hi is not None and olo is not None and hi < olo) or (
                lo is not None and ohi is not None and lo > ohi
            ):
                return False
            return mk_bool(self.t == iterm(o))
        raise AssertionError(op)

    def __lt__(self, o):
        return self._cmp(o, "lt")

    def __le__(self, o):
        return self._cmp(o, "le")

    def __gt__(self, o):
        return self._cmp(o, "gt")

    def __ge__(self, o):
        return self._cmp(o, "ge")

    def __eq__(self, o):
        if not _num(o):
            return False
        return self._cmp(o, "eq")

    def __ne__(self, o):
        if not _num(o):
            return True
        return snot(self._cmp(o, "eq"))

    # ---- arithmetic
    def __add__(self, o):
        if not _num(o):
            return NotImplemented
        lo, hi = bounds(o)
        m2, r2 = stride(o)
        m = math.gcd(self.m, m2)
        return mk_int(self.t + iterm(o), _add_b(self.lo, lo), _add_b(self.hi, hi), m, self.r + r2)

    __radd__ = __add__

    def __neg__(self):
        return mk_int(
            -self.t,
            None if self.hi is None else -self.hi,
            None if self.lo is None else -self.lo,
            self.m,
            -self.r,
        )

    def __pos__(self):
        return self

    def __abs__(self):
        if self.lo is not None and self.lo >= 0:
            return self
        return mk_int(z3.If(self.t < 0, -self.t, self.t), 0, None)

    def __sub__(self, o):
        if not _num(o):
            return NotImplemented
        return self + (-o if not _real_isinstance(o, SBool) else -as_sint(o))

    def __rsub__(self, o):
        if not _num(o):
            return NotImplemented
        return (-self) + o

    def __mul__(self, o):
        if _real_isinstance(o, (_real_bytes, _real_str, list, tuple, SBytes, SStr)):
            return o * _real_int(self)
        if not _num(o):
            return NotImplemented
        if _real_isinstance(o, _real_int):
            c = _real_int(o)
            if c == 0:
                return 0
            lo = None if self.lo is None else self.lo * c
            hi = None if self.hi is None else self.hi * c
            if c < 0:
                lo, hi = hi, lo
            return mk_int(self.t * c, lo, hi, self.m * abs(c), self.r * c)
        lo = hi = None
        b = bounds(o)
        if None not in (self.lo, self.hi, b[0], b[1]):
            cs = [self.lo * b[0], self.lo * b[1], self.hi * b[0], self.hi * b[1]]
            lo, hi = min(cs), max(cs)
        return mk_int(self.t * iterm(o), lo, hi)

    __rmul__ = __mul__

    def __floordiv__(self, o):
        if _real_isinstance(o, _real_int) and not _real_isinstance(o, _real_bool):
            c = _real_int(o)
            if c == 0:
                raise ZeroDivisionError("integer division or modulo by zero")
            if c > 0:
                lo = None if self.lo is None else self.lo // c
                hi = None if self.hi is None else self.hi // c
                return mk_int(self.t / c, lo, hi)
            return (-self) // (-c)
        raise Unsupported("floordiv by a symbolic divisor")

    def __mod__(self, o):
        if _real_isinstance(o, _real_int) and not _real_isinstance(o, _real_bool):
            c = _real_int(o)
            if c > 0:
                if self.lo is not None and self.hi is not None and 0 <= self.lo and self.hi < c:
                    return self
                return mk_int(self.t % c, 0, c - 1)
        raise Unsupported("mod by a symbolic / non-positive divisor")

    def __divmod__(self, o):
        return self // o, self % o

    def __lshift__(self, o):
        if _real_isinstance(o, _real_int):
            if o < 0:
                raise ValueError("negative shift count")
            return self * (1 << _real_int(o))
        if _real_isinstance(o, (SInt, SBool)):
            return _shift_sym(self, as_sint(o), True)
        return NotImplemented

    def __rlshift__(self, o):
        if _real_isinstance(o, _real_int):
            return _shift_sym(_real_int(o), self, True)
        return NotImplemented

    def __rshift__(self, o):
        if _real_isinstance(o, _real_int):
            if o < 0:
                raise ValueError("negative shift count")
            return self // (1 << _real_int(o))
        if _real_isinstance(o, (SInt, SBool)):
            return _shift_sym(self, as_sint(o), False)
        return NotImplemented

    def __rrshift__(self, o):
        if _real_isinstance(o, _real_int):
            return _shift_sym(_real_int(o), self, False)
        return NotImplemented

    def _bit(self, i):
        """z3 Int term: bit i (0/1) of self under floor semantics."""
        if i == 0:
            return self.t % 2
        return (self.t / (1 << i)) % 2

    def __and__(self, o):
        if _real_isinstance(o, _real_int):
            c = _real_int(o)
            if c < 0:
                raise Unsupported("& with a negative constant")
            if c == 0:
                return 0
            k = _pow2_index(c)
            if k is not None:
                return self % (1 << k)
            bits = [i for i in range(c.bit_length()) if (c >> i) & 1]
            # contiguous run of bits  b..e :  ((x div 2^b) mod 2^(e-b+1)) * 2^b
            if bits == list(range(bits[0], bits[-1] + 1)):
                b, n = bits[0], len(bits)
                return mk_int(((self.t / (1 << b)) % (1 << n)) * (1 << b), 0, c, 1 << b, 0)
            t = z3.Sum([self._bit(i) * (1 << i) for i in bits])
            return mk_int(t, 0, c)
        if _real_isinstance(o, (SInt, SBool)):
            o = as_sint(o)
            nb = _common_bits(self, o)
            t = z3.Sum(
                [
                    z3.If(z3.And(self._bit(i) == 1, o._bit(i) == 1), z3.IntVal(1 << i), z3.IntVal(0))
                    for i in range(nb)
                ]
            )
            hs = [h for h in (self.hi, o.hi) if h is not None]
            return mk_int(t, 0, min(hs))
        return NotImplemented

    __rand__ = __and__

    def __or__(self, o):
        if not _num(o):
            return NotImplemented
        if _disjoint_bits(self, o) or _disjoint_bits(o, self):
            return self + o
        a = self & o
        r = self + o - a
        if _real_isinstance(r, SInt):
            lo1, hi1 = bounds(self)
            lo2, hi2 = bounds(o)
            if lo1 is not None and lo2 is not None and lo1 >= 0 and lo2 >= 0:
                r.lo = max(lo1, lo2)
                if hi1 is not None and hi2 is not None:
                    r.hi = (1 << max(hi1.bit_length(), hi2.bit_length())) - 1
        return r

    __ror__ = __or__

    def __xor__(self, o):
        if not _num(o):
            return NotImplemented
        a = self & o
        return self + o - a * 2

    __rxor__ = __xor__

    def __invert__(self):
        return -self - 1

    def __pow__(self, o):
        raise Unsupported("pow on a symbolic int")

    def __truediv__(self, o):
        raise Unsupported("true division on a symbolic int")

    def bit_length(self):
        raise Unsupported("bit_length on a symbolic int")

    @property
    def value(self):  # IntEnum-like access used on members
        return self

    @property
    def real(self):
        return self


def _disjoint_bits(a, b):
    """a is a multiple of 2^k (non-negative or not) and 0 <= b < 2^k"""
    m, r = stride(a)
    lo, hi = bounds(b)
    if lo is None or hi is None or lo < 0:
        return False
    if m == 0:  # a constant
        if r < 0:
            return False
        m = r & -r if r else 0
        if r == 0:
            return True
        return hi < m
    if r % m != 0:
        return False
    k = m & -m  # largest power of two dividing the stride
    return hi < k


def _common_bits(a, b):
    his = []
    for x in (a, b):
        if x.lo is None or x.lo < 0:
            continue
        if x.hi is not None:
            his.append(x.hi)
    if not his:
        raise Unsupported("bitwise operation between two unbounded symbolic ints")
    # a & b <= min(a, b) for non-negative operands; bits above the smaller bound are zero in it
    for x in (a, b):
        if x.lo is None or x.lo < 0:
            raise Unsupported("bitwise operation with a possibly negative symbolic int")
    return max(1, min(his).bit_length())


def _shift_sym(val, amt, left):
    """val << amt / val >> amt with a symbolic amount: ITE chain over the feasible amounts."""
    e = E()
    if amt.lo is None or amt.lo < 0:
        if e.decide(amt.t < 0):
            raise ValueError("negative shift count")
    lo = max(0, amt.lo or 0)
    hi = amt.hi
    if hi is None:
        raise Unsupported("shift by an unbounded symbolic amount")
    cands = [k for k in range(lo, hi + 1) if amt.m <= 1 or k % amt.m == amt.r % amt.m]
    if len(cands) > 300:
        raise Unsupported(f"shift amount with {len(cands)} candidates")
    vt = iterm(val)
    t = None
    for k in reversed(cands):
        x = vt * (1 << k) if left else vt / (1 << k)
        t = x if t is None else z3.If(amt.t == k, x, t)
    vlo, vhi = bounds(val)
    if left:
        rlo = None if vlo is None else (vlo << lo if vlo >= 0 else vlo << hi)
        rhi = None if vhi is None else (vhi << hi if vhi >= 0 else vhi << lo)
    else:
        rlo = None if vlo is None else (vlo >> hi if vlo >= 0 else vlo >> lo)
        rhi = None if vhi is None else (vhi >> lo if vhi >= 0 else vhi >> hi)
    return mk_int(t, rlo, rhi)


def sym_int(name, lo=None, hi=None):
    """Fresh named symbolic int registered as an input."""
    e = E()
    t = z3.Int(name)
    if lo is not None:
        e.axiom(t >= lo)
    if hi is not None:
        e.axiom(t <= hi)
    e.register_input(name, "int", t)
    return SInt(t, lo, hi)


def sym_bool(name):
    e = E()
    t = z3.Bool(name)
    e.register_input(name, "bool", t)
    return SBool(t)


# ====================================================================== index helpers
def conc_index(i):
    if _real_isinstance(i, (SInt, SBool)):
        return _real_int(i)
    return i.__index__()


def clamp_bound(b, n, default):
    """Resolve one slice bound (None / int / SInt) against length n -> concrete int in [0, n]."""
    if b is None:
        return default
    if _real_isinstance(b, (SInt, SBool)):
        b = as_sint(b)
        e = E()
        eff = z3.If(b.t < 0, z3.If(b.t + n < 0, 0, b.t + n), z3.If(b.t > n, n, b.t))
        for k in range(0, n + 1):
            if e.decide(eff == k):
                return k
        raise core.PathAbort()
    b = b.__index__()
    if b < 0:
        b += n
        if b < 0:
            b = 0
    elif b > n:
        b = n
    return b


def norm_slice(s, n):
    if s.step is not None and conc_index(s.step) != 1:
        step = conc_index(s.step)
        start, stop, step = _real_slice(
            None if s.start is None else conc_index(s.start),
            None if s.stop is None else conc_index(s.stop),
            step,
        ).indices(n)
        return list(range(start, stop, step))
    start = clamp_bound(s.start, n, 0)
    stop = clamp_bound(s.stop, n, n)
    if stop < start:
        stop = start
    return range(start, stop)


def all_concrete(items):
    for x in items:
        if not _real_isinstance(x, _real_int):
            return False
    return True


def elem(x):
    """list element -> python int or SInt (byte range)."""
    if _real_isinstance(x, _real_int):
        return x
    return SInt(x, 0, 255)


def celem(x):
    if _real_isinstance(x, _real_int):
        return x
    return SInt(x, 0, 0x10FFFF)


def byte_item(v):
    """value being stored into a byte container -> list element; enforces 0..255 like CPython."""
    if _real_isinstance(v, SBool):
        v = as_sint(v)
    if _real_isinstance(v, SInt):
        if v.lo is not None and v.hi is not None and v.lo >= 0 and v.hi <= 255:
            return v.t
        if E().decide(z3.And(v.t >= 0, v.t <= 255)):
            return v.t
        raise ValueError("byte must be in range(0, 256)")
    if _real_isinstance(v, _real_int):
        if not 0 <= v <= 255:
            raise ValueError("byte must be in range(0, 256)")
        return _real_int(v)
    raise TypeError(f"'{type(v).__name__}' object cannot be interpreted as an integer")


def items_of(x):
    """element list of any bytes-like (real or proxy)."""
    if _real_isinstance(x, (SBytes, SByteArray)):
        return x.items
    if _real_isinstance(x, SMemoryView):
        return x._items()
    if _real_isinstance(x, (_real_bytes, bytearray, memoryview)):
        return list(_real_bytes(x))
    raise TypeError(f"a bytes-like object is required, not '{type(x).__name__}'")


def is_byteslike(x):
    return _real_isinstance(x, (SBytes, SByteArray, SMemoryView, _real_bytes, bytearray, memoryview))


def mk_bytes(items):
    if all_concrete(items):
        return _real_bytes(items)
    return SBytes(items)


def seq_eq(a, b):
    """element-wise equality of two element lists -> bool / SBool"""
    if _real_len(a) != _real_len(b):
        return False
    ts = []
    for x, y in zip(a, b):
        if x is y:
            continue
        xi, yi = _real_isinstance(x, _real_int), _real_isinstance(y, _real_int)
        if xi and yi:
            if x != y:
                return False
            continue
        ts.append(iterm(x) == iterm(y))
    if not ts:
        return True
    return mk_bool(z3.And(*ts) if len(ts) > 1 else ts[0])


# ====================================================================== byte strings
class _BytesBase:
    __slots__ = ()

    def _items(self):
        return self.items

    def __len__(self):
        return _real_len(self._items())

    def __bool__(self):
        return _real_len(self._items()) > 0

    def __iter__(self):
        for x in list(self._items()):
            yield elem(x)

    def __getitem__(self, i):
        items = self._items()
        if _real_isinstance(i, _real_slice):
            idx = norm_slice(i, _real_len(items))
            if _real_isinstance(idx, range):
                return self._slice(idx.start, idx.stop)
            return self._mk([items[j] for j in idx])
        i = conc_index(i)
        n = _real_len(items)
        if i < 0:
            i += n
        if not 0 <= i < n:
            raise IndexError("index out of range")
        return elem(items[i])

    def _slice(self, a, b):
        return self._mk(self._items()[a:b])

    def _mk(self, items):
        return mk_bytes(items)

    def __eq__(self, o):
        if not is_byteslike(o):
            return False
        return seq_eq(self._items(), items_of(o))

    def __ne__(self, o):
        return snot(self.__eq__(o))

    def __hash__(self):
        return hash(_real_bytes(conc_items(self._items())))

    def __add__(self, o):
        if not is_byteslike(o):
            return NotImplemented
        return self._mk(list(self._items()) + items_of(o))

    def __radd__(self, o):
        if not is_byteslike(o):
            return NotImplemented
        return mk_bytes(items_of(o) + list(self._items()))

    def __mul__(self, n):
        return self._mk(list(self._items()) * conc_index(n))

    def __contains__(self, o):
        items = self._items()
        if _real_isinstance(o, (_real_int, SInt)):
            return _real_bool(sor(*[elem(x) == o for x in items]))
        sub = items_of(o)
        return self.find(o) >= 0

    def find(self, sub, start=0):
        items = self._items()
        sub = items_of(sub) if is_byteslike(sub) else [byte_item(sub)]
        n, k = _real_len(items), _real_len(sub)
        for i in range(start, n - k + 1):
            if _real_bool(seq_eq(items[i : i + k], sub)):
                return i
        return -1

    def startswith(self, p):
        p = items_of(p)
        items = self._items()
        if _real_len(p) > _real_len(items):
            return False
        return _real_bool(seq_eq(items[: _real_len(p)], p))

    def endswith(self, p):
        p = items_of(p)
        items = self._items()
        if _real_len(p) > _real_len(items):
            return False
        return _real_bool(seq_eq(items[_real_len(items) - _real_len(p) :], p))

    def split(self, sep=None, maxsplit=-1):
        if sep is None:
            raise Unsupported("bytes.split() on whitespace")
        items = list(self._items())
        sep = items_of(sep)
        k = _real_len(sep)
        out, cur, i = [], [], 0
        while i < _real_len(items):
            if (maxsplit < 0 or _real_len(out) < maxsplit) and i + k <= _real_len(items) and _real_bool(
                seq_eq(items[i : i + k], sep)
            ):
                out.append(mk_bytes(cur))
                cur = []
                i += k
            else:
                cur.append(items[i])
                i += 1
        out.append(mk_bytes(cur))
        return out

    def tobytes(self):
        return mk_bytes(list(self._items()))

    def decode(self, encoding="utf-8", errors="strict"):
        enc = encoding.lower().replace("_", "-")
        if enc not in ("utf-8", "utf8"):
            raise Unsupported(f"decode({encoding!r})")
        from .text import utf8_decode

        return utf8_decode(list(self._items()), errors)

    def hex(self):
        return _real_bytes(conc_items(self._items())).hex()

    def upper(self):
        raise Unsupported("bytes.upper")

    def __repr__(self):
        return PLACEHOLDER

    __str__ = __repr__

    def __format__(self, spec):
        return PLACEHOLDER


def conc_items(items):
    e = E()
    return [x if _real_isinstance(x, _real_int) else e.concretize(x) for x in items]


class SBytes(_BytesBase):
    __slots__ = ("items",)

    def __init__(self, items):
        self.items = items


class SByteArray(_BytesBase):
    """Mutable; always a proxy (even when its content is concrete)."""

    __slots__ = ("items", "__weakref__")

    def __init__(self, items=()):
        self.items = list(items)

    def _mk(self, items):
        return SByteArray(items)

    def tobytes(self):
        return mk_bytes(list(self.items))

    def append(self, v):
        self.items.append(byte_item(v))

    def extend(self, o):
        if is_byteslike(o):
            self.items.extend(items_of(o))
        else:
            self.items.extend(byte_item(v) for v in o)

    def __iadd__(self, o):
        self.extend(o)
        return self

    def reverse(self):
        self.items.reverse()

    def __setitem__(self, i, v):
        if _real_isinstance(i, _real_slice):
            idx = norm_slice(i, _real_len(self.items))
            if not _real_isinstance(idx, range):
                raise Unsupported("extended slice assignment")
            self.items[idx.start : idx.stop] = items_of(v)
            return
        i = conc_index(i)
        n = _real_len(self.items)
        if i < 0:
            i += n
        if not 0 <= i < n:
            raise IndexError("bytearray index out of range")
        self.items[i] = byte_item(v)

    def __delitem__(self, i):
        if _real_isinstance(i, _real_slice):
            idx = norm_slice(i, _real_len(self.items))
            del self.items[idx.start : idx.stop]
            return
        del self.items[conc_index(i)]

    def pop(self, i=-1):
        return elem(self.items.pop(conc_index(i)))

    def clear(self):
        self.items.clear()

    def insert(self, i, v):
        self.items.insert(conc_index(i), byte_item(v))

    def copy(self):
        return SByteArray(self.items)

    __hash__ = None


class SMemoryView(_BytesBase):
    """A true view: reads go to the base object at access time (aliasing is visible)."""

    __slots__ = ("base", "start", "stop")

    def __init__(self, base, start=None, stop=None):
        if _real_isinstance(base, SMemoryView):
            s0 = base.start
            self.base = base.base
            self.start = s0 + (start or 0)
            self.stop = s0 + (stop if stop is not None else _real_len(base))
        else:
            if _real_isinstance(base, (_real_bytes, memoryview)):
                base = _real_bytes(base)
            self.base = base
            n = _real_len(base)
            self.start = start or 0
            self.stop = n if stop is None else stop

    def _items(self):
        b = self.base
        if _real_isinstance(b, (SBytes, SByteArray)):
            return b.items[self.start : self.stop]
        return list(b[self.start : self.stop])

    def __len__(self):
        return self.stop - self.start

    def __bool__(self):
        return self.stop > self.start

    def _slice(self, a, b):
        return SMemoryView(self, a, b)

    def _mk(self, items):
        return mk_bytes(items)

    def __getitem__(self, i):
        if _real_isinstance(i, _real_slice):
            idx = norm_slice(i, self.stop - self.start)
            if _real_isinstance(idx, range):
                return SMemoryView(self, idx.start, idx.stop)
            return mk_bytes([self._items()[j] for j in idx])
        i = conc_index(i)
        n = self.stop - self.start
        if i < 0:
            i += n
        if not 0 <= i < n:
            raise IndexError("index out of bounds on dimension 1")
        b = self.base
        if _real_isinstance(b, (SBytes, SByteArray)):
            return elem(b.items[self.start + i])
        return b[self.start + i]

    def __setitem__(self, i, v):
        if not _real_isinstance(self.base, SByteArray):
            raise TypeError("cannot modify read-only memory")
        self.base[self.start + conc_index(i)] = v

    def release(self):
        pass

    def __enter__(self):
        return self

    def __exit__(self, *a):
        return None

    @property
    def nbytes(self):
        return self.stop - self.start

    __hash__ = None


def sym_bytes(name, n, cls=None):
    e = E()
    items = []
    for i in range(n):
        t = z3.Int(f"{name}[{i}]")
        e.axiom(z3.And(t >= 0, t <= 255))
        items.append(t)
    e.register_input(name, "bytes", list(items))
    return (cls or SBytes)(items) if (items or cls) else b""


# ====================================================================== sets of ints
class SSet:
    """Set whose members are pairwise distinct under the path condition (concrete cardinality)."""

    def __init__(self, it=()):
        self.members = []
        for x in it:
            self.add(x)

    def _find(self, x):
        for i, m in enumerate(self.members):
            r = m == x
            if r is True or (r is not False and _real_bool(r)):
                return i
        return -1

    def __contains__(self, x):
        if not self.members:
            return False
        return _real_bool(sor(*[(m == x) for m in self.members]))

    def add(self, x):
        if self._find(x) < 0:
            self.members.append(x)

    def remove(self, x):
        i = self._find(x)
        if i < 0:
            raise KeyError(x)
        del self.members[i]

    def discard(self, x):
        i = self._find(x)
        if i >= 0:
            del self.members[i]

    def __len__(self):
        return _real_len(self.members)

    def __bool__(self):
        return _real_len(self.members) > 0

    def __iter__(self):
        return iter(list(self.members))

    def copy(self):
        s = SSet()
        s.members = list(self.members)
        return s

    def clear(self):
        self.members = []

    def __eq__(self, o):
        if not _real_isinstance(o, (SSet, set, frozenset)):
            return False
        om = list(o.members) if _real_isinstance(o, SSet) else list(o)
        if _real_len(om) != _real_len(self.members):
            return False
        return sand(*[sor(*[(m == x) for x in om]) for m in self.members])

    __hash__ = None

    def __repr__(self):
        return PLACEHOLDER


from .text import SStr  # noqa: E402  (cyclic: text needs the definitions above)
