"""SX proxies: symbolic ints / bools / byte strings / text with concrete shape.

Invariants: every element of a byte proxy lies in 0..255 and every element of a text proxy is a
code point 0..0x10FFFF under the current path condition.  Results that are fully concrete are
returned as the genuine builtin objects.
"""
from __future__ import annotations

import builtins
import math
import z3

from . import core
from .core import Unsupported

_real_int = builtins.int
_real_bool = builtins.bool
_real_bytes = builtins.bytes
_real_str = builtins.str
_real_isinstance = builtins.isinstance
_real_len = builtins.len
_real_slice = builtins.slice



from .ints import (  # noqa: E402,F401
    E,
    PLACEHOLDER,
    SBool,
    SInt,
    as_sint,
    bounds,
    bterm,
    intval,
    is_term,
    iterm,
    mk_bool,
    mk_int,
    mk_lazy,
    norm,
    sand,
    simplies,
    site,
    snot,
    sor,
    stride,
    sym_bool,
    sym_int,
)


# ====================================================================== index helpers
def conc_index(i):
    if _real_isinstance(i, (SInt, SBool)):
        return _real_int(i)
    return i.__index__()


def clamp_bound(b, n, default):
    """Resolve one slice bound (None / int / SInt) against length n -> concrete int in [0, n]."""
    if b is None:
        return default
    if _real_isinstance(b, (SInt, SBool)):
        b = norm(b)
        if _real_isinstance(b, (SInt,)):
            if b.lo is not None and b.hi is not None and b.lo >= 0 and b.hi <= n:
                return b.__index__()
            e = E()
            t = b.t
            eff = z3.If(t < 0, z3.If(t + n < 0, 0, t + n), z3.If(t > n, n, t))
            return e.concretize(eff)
    b = b.__index__()
    if b < 0:
        b += n
        if b < 0:
            b = 0
    elif b > n:
        b = n
    return b


def norm_slice(s, n):
    if s.step is not None and conc_index(s.step) != 1:
        step = conc_index(s.step)
        start, stop, step = _real_slice(
            None if s.start is None else conc_index(s.start),
            None if s.stop is None else conc_index(s.stop),
            step,
        ).indices(n)
        return list(range(start, stop, step))
    start = clamp_bound(s.start, n, 0)
    stop = clamp_bound(s.stop, n, n)
    if stop < start:
        stop = start
    return range(start, stop)


def all_concrete(items):
    for x in items:
        if not _real_isinstance(x, _real_int):
            return False
    return True


def _shared(x, lo, hi):
    """one SInt object per element term and path, so interval refinements are shared"""
    if _real_isinstance(x, _real_int):
        return x
    cache = E().sints
    k = x.get_id()
    ent = cache.get(k)
    if ent is None:
        s = SInt(x, lo, hi)
        cache[k] = (x, s)  # the term is kept alive so that its id cannot be reused on this path
        return s
    s = ent[1]
    if lo is not None and (s.lo is None or lo > s.lo):
        s.lo = lo
    if hi is not None and (s.hi is None or hi < s.hi):
        s.hi = hi
    if s.lo is not None and s.lo == s.hi:
        return s.lo
    return s


def note_bounds(t, lo, hi):
    """remember tighter bounds for a derived element term (returns the term)"""
    if _real_isinstance(t, _real_int):
        return t
    cache = E().sints
    k = t.get_id()
    ent = cache.get(k)
    if ent is None:
        cache[k] = (t, SInt(t, lo, hi))
    else:
        s = ent[1]
        if s.lo is None or lo > s.lo:
            s.lo = lo
        if s.hi is None or hi < s.hi:
            s.hi = hi
    return t


def elem(x):
    """list element -> python int or SInt (byte range)."""
    return _shared(x, 0, 255)


def celem(x):
    return _shared(x, 0, 0x10FFFF)


def byte_item(v):
    """value being stored into a byte container -> list element; enforces 0..255 like CPython."""
    if _real_isinstance(v, SBool):
        v = as_sint(v)
    if _real_isinstance(v, SInt):
        if v.lo is not None and v.lo == v.hi:
            return byte_item(v.lo)
        if not (v.lo is not None and v.hi is not None and v.lo >= 0 and v.hi <= 255):
            if not (_real_bool(v >= 0) and _real_bool(v <= 255)):
                raise ValueError("byte must be in range(0, 256)")
        t = z3.simplify(v.t)
        if z3.is_int_value(t):
            return t.as_long()
        E().sints.setdefault(t.get_id(), (t, v))
        return t
    if _real_isinstance(v, _real_int):
        if not 0 <= v <= 255:
            raise ValueError("byte must be in range(0, 256)")
        return _real_int(v)
    raise TypeError(f"'{type(v).__name__}' object cannot be interpreted as an integer")


def items_of(x):
    """element list of any bytes-like (real or proxy)."""
    if _real_isinstance(x, SByteArray):
        return list(x.items)  # mutable source: never share the list
    if _real_isinstance(x, SBytes):
        return x.items
    if _real_isinstance(x, SMemoryView):
        return x._items()
    if _real_isinstance(x, (_real_bytes, bytearray, memoryview)):
        return list(_real_bytes(x))
    raise TypeError(f"a bytes-like object is required, not '{type(x).__name__}'")


def is_byteslike(x):
    return _real_isinstance(x, (SBytes, SByteArray, SMemoryView, _real_bytes, bytearray, memoryview))


def mk_bytes(items):
    if all_concrete(items):
        return _real_bytes(items)
    return SBytes(items)


def seq_eq(a, b):
    """element-wise equality of two element lists -> bool / SBool.  Comparisons against constants
    go through the per-path shared SInt of the element, so intervals / exclusions answer most of
    them without the solver and a branch on a single comparison refines the element."""
    if _real_len(a) != _real_len(b):
        return False
    conds = []
    for x, y in zip(a, b):
        if x is y:
            continue
        xi, yi = _real_isinstance(x, _real_int), _real_isinstance(y, _real_int)
        if xi and yi:
            if x != y:
                return False
            continue
        if xi:
            x, y = y, x
            yi = True
        sx = _shared(x, None, None)
        r = sx == (y if yi else _shared(y, None, None))
        if r is False:
            return False
        if r is True:
            continue
        conds.append(r)
    if not conds:
        return True
    if _real_len(conds) == 1:
        return conds[0]
    return sand(*conds)


# ====================================================================== byte strings
class _BytesBase:
    __slots__ = ()

    def _items(self):
        return self.items

    def __len__(self):
        return _real_len(self._items())

    def __bool__(self):
        return _real_len(self._items()) > 0

    def __iter__(self):
        for x in list(self._items()):
            yield elem(x)

    def __getitem__(self, i):
        items = self._items()
        if _real_isinstance(i, _real_slice):
            idx = norm_slice(i, _real_len(items))
            if _real_isinstance(idx, range):
                return self._slice(idx.start, idx.stop)
            return self._mk([items[j] for j in idx])
        i = conc_index(i)
        n = _real_len(items)
        if i < 0:
            i += n
        if not 0 <= i < n:
            raise IndexError("index out of range")
        return elem(items[i])

    def _slice(self, a, b):
        return self._mk(self._items()[a:b])

    def _mk(self, items):
        return mk_bytes(items)

    def __eq__(self, o):
        if not is_byteslike(o):
            return False
        return seq_eq(self._items(), items_of(o))

    def __ne__(self, o):
        return snot(self.__eq__(o))

    def __hash__(self):
        # hashing pins every octet (256 paths each): affordable for one or two, hopeless for more
        nsym = sum(1 for c in self._items() if not _real_isinstance(c, _real_int))
        if nsym > 2:
            raise Unsupported("hashing octets with more than two symbolic items (used as a dictionary / cache key)")
        return hash(_real_bytes(conc_items(self._items())))

    def __add__(self, o):
        if not is_byteslike(o):
            return NotImplemented
        return self._mk(list(self._items()) + items_of(o))

    def __radd__(self, o):
        if not is_byteslike(o):
            return NotImplemented
        return mk_bytes(items_of(o) + list(self._items()))

    def __mul__(self, n):
        from .ints import cost_guard

        return self._mk(list(self._items()) * conc_index(cost_guard(n, "repetition by")))

    def __contains__(self, o):
        items = self._items()
        if _real_isinstance(o, (_real_int, SInt)):
            return _real_bool(sor(*[elem(x) == o for x in items]))
        sub = items_of(o)
        return self.find(o) >= 0

    def _range(self, start, end):
        n = _real_len(self._items())
        a = 0 if start is None else conc_index(start)
        b = n if end is None else conc_index(end)
        if a < 0:
            a = max(0, a + n)
        if b < 0:
            b = max(0, b + n)
        return a, min(b, n)

    def _sub(self, sub):
        return items_of(sub) if is_byteslike(sub) else [byte_item(sub)]

    def find(self, sub, start=None, end=None):
        items = self._items()
        sub = self._sub(sub)
        a, b = self._range(start, end)
        k = _real_len(sub)
        for i in range(a, b - k + 1):
            if _real_bool(seq_eq(items[i : i + k], sub)):
                return i
        return -1

    def rfind(self, sub, start=None, end=None):
        items = self._items()
        sub = self._sub(sub)
        a, b = self._range(start, end)
        k = _real_len(sub)
        for i in range(b - k, a - 1, -1):
            if _real_bool(seq_eq(items[i : i + k], sub)):
                return i
        return -1

    def index(self, sub, start=None, end=None):
        i = self.find(sub, start, end)
        if i < 0:
            raise ValueError("subsection not found")
        return i

    def rindex(self, sub, start=None, end=None):
        i = self.rfind(sub, start, end)
        if i < 0:
            raise ValueError("subsection not found")
        return i

    def count(self, sub, start=None, end=None):
        items = self._items()
        sub = self._sub(sub)
        a, b = self._range(start, end)
        k = _real_len(sub)
        if k == 0:
            return max(0, b - a) + 1
        n, i = 0, a
        while i <= b - k:
            if _real_bool(seq_eq(items[i : i + k], sub)):
                n += 1
                i += k
            else:
                i += 1
        return n

    def _affix(self, p, start, end, at_end):
        if _real_isinstance(p, tuple):
            for q in p:
                if self._affix(q, start, end, at_end):
                    return True
            return False
        p = items_of(p)
        a, b = self._range(start, end)
        items = self._items()[a:b] if a <= b else []
        if _real_len(p) > _real_len(items):
            return False
        part = items[_real_len(items) - _real_len(p) :] if at_end else items[: _real_len(p)]
        return _real_bool(seq_eq(part, p))

    def startswith(self, p, start=None, end=None):
        return self._affix(p, start, end, False)

    def endswith(self, p, start=None, end=None):
        return self._affix(p, start, end, True)

    def partition(self, sep):
        i = self.find(sep)
        k = _real_len(items_of(sep))
        if i < 0:
            return (self._mk(list(self._items())), mk_bytes([]), mk_bytes([]))
        return (self._slice(0, i), mk_bytes(items_of(sep)), self._slice(i + k, _real_len(self._items())))

    def rpartition(self, sep):
        i = self.rfind(sep)
        k = _real_len(items_of(sep))
        if i < 0:
            return (mk_bytes([]), mk_bytes([]), self._mk(list(self._items())))
        return (self._slice(0, i), mk_bytes(items_of(sep)), self._slice(i + k, _real_len(self._items())))

    def _strip(self, chars, left, right):
        items = list(self._items())
        if chars is None:
            chars = b" \t\n\r\x0b\x0c"
        cs = list(_real_bytes(conc_items(items_of(chars))))
        a, b = 0, _real_len(items)
        if left:
            while a < b and _real_bool(sor(*[elem(items[a]) == c for c in cs])):
                a += 1
        if right:
            while b > a and _real_bool(sor(*[elem(items[b - 1]) == c for c in cs])):
                b -= 1
        return self._slice(a, b)

    def strip(self, chars=None):
        return self._strip(chars, True, True)

    def lstrip(self, chars=None):
        return self._strip(chars, True, False)

    def rstrip(self, chars=None):
        return self._strip(chars, False, True)

    def replace(self, old, new, count=-1):
        parts = self.split(old, count)
        out = []
        for i, p_ in enumerate(parts):
            if i:
                out += items_of(new)
            out += items_of(p_)
        return self._mk(out)

    def join(self, it):
        out = []
        for i, p_ in enumerate(it):
            if i:
                out += list(self._items())
            out += items_of(p_)
        return mk_bytes(out)

    def __getattr__(self, name):
        # a bytes method without a model: pin the octets to palette values and run the real
        # method - the unit becomes partial (see sx/hunt.py)
        if name.startswith("_") or not hasattr(b"", name):
            raise AttributeError(name)
        from . import hunt

        def call(*a, **kw):
            what = "bytes." + name
            return getattr(hunt.conc(self, what), name)(*[hunt.conc(x, what) for x in a], **{k: hunt.conc(x, what) for k, x in kw.items()})

        return call

    def split(self, sep=None, maxsplit=-1):
        if sep is None:
            raise Unsupported("bytes.split() on whitespace")
        items = list(self._items())
        sep = items_of(sep)
        k = _real_len(sep)
        out, cur, i = [], [], 0
        while i < _real_len(items):
            if (maxsplit < 0 or _real_len(out) < maxsplit) and i + k <= _real_len(items) and _real_bool(
                seq_eq(items[i : i + k], sep)
            ):
                out.append(mk_bytes(cur))
                cur = []
                i += k
            else:
                cur.append(items[i])
                i += 1
        out.append(mk_bytes(cur))
        return out

    def tobytes(self):
        return mk_bytes(list(self._items()))

    def decode(self, encoding="utf-8", errors="strict"):
        enc = encoding.lower().replace("_", "-")
        if enc in ("ascii", "us-ascii", "latin-1", "latin1", "iso-8859-1"):
            from .text import single_byte_decode

            return single_byte_decode(list(self._items()), enc.startswith(("ascii", "us-")), errors)
        if enc not in ("utf-8", "utf8"):
            raise Unsupported(f"decode({encoding!r})")
        from .text import utf8_decode

        return utf8_decode(list(self._items()), errors)

    def hex(self):
        return _real_bytes(conc_items(self._items())).hex()

    def __repr__(self):
        return PLACEHOLDER

    __str__ = __repr__

    def __format__(self, spec):
        return PLACEHOLDER


def conc_items(items):
    e = E()
    return [x if _real_isinstance(x, _real_int) else e.concretize(x) for x in items]


class SBytes(_BytesBase):
    __slots__ = ("items",)

    def __init__(self, items):
        self.items = items

    def __deepcopy__(self, memo):
        return self  # immutable


class SByteArray(_BytesBase):
    """Mutable; always a proxy (even when its content is concrete)."""

    __slots__ = ("items", "__weakref__")

    def __init__(self, items=()):
        self.items = list(items)

    def _mk(self, items):
        return SByteArray(items)

    def tobytes(self):
        return mk_bytes(list(self.items))

    def append(self, v):
        self.items.append(byte_item(v))

    def extend(self, o):
        if is_byteslike(o):
            self.items.extend(items_of(o))
        else:
            self.items.extend(byte_item(v) for v in o)

    def __iadd__(self, o):
        self.extend(o)
        return self

    def reverse(self):
        self.items.reverse()

    def __setitem__(self, i, v):
        if _real_isinstance(i, _real_slice):
            idx = norm_slice(i, _real_len(self.items))
            if not _real_isinstance(idx, range):
                raise Unsupported("extended slice assignment")
            self.items[idx.start : idx.stop] = items_of(v)
            return
        i = conc_index(i)
        n = _real_len(self.items)
        if i < 0:
            i += n
        if not 0 <= i < n:
            raise IndexError("bytearray index out of range")
        self.items[i] = byte_item(v)

    def __delitem__(self, i):
        if _real_isinstance(i, _real_slice):
            idx = norm_slice(i, _real_len(self.items))
            del self.items[idx.start : idx.stop]
            return
        del self.items[conc_index(i)]

    def pop(self, i=-1):
        return elem(self.items.pop(conc_index(i)))

    def clear(self):
        self.items.clear()

    def insert(self, i, v):
        self.items.insert(conc_index(i), byte_item(v))

    def copy(self):
        return SByteArray(self.items)

    def __deepcopy__(self, memo):
        return SByteArray(self.items)

    __hash__ = None


class SMemoryView(_BytesBase):
    """A true view: reads go to the base object at access time (aliasing is visible)."""

    __slots__ = ("base", "start", "stop")

    def __init__(self, base, start=None, stop=None):
        if _real_isinstance(base, SMemoryView):
            s0 = base.start
            self.base = base.base
            self.start = s0 + (start or 0)
            self.stop = s0 + (stop if stop is not None else _real_len(base))
        else:
            if _real_isinstance(base, (_real_bytes, memoryview)):
                base = _real_bytes(base)
            self.base = base
            n = _real_len(base)
            self.start = start or 0
            self.stop = n if stop is None else stop

    def _items(self):
        b = self.base
        if _real_isinstance(b, (SBytes, SByteArray)):
            return b.items[self.start : self.stop]
        return list(b[self.start : self.stop])

    def __len__(self):
        return self.stop - self.start

    def __bool__(self):
        return self.stop > self.start

    def _slice(self, a, b):
        return SMemoryView(self, a, b)

    def _mk(self, items):
        return mk_bytes(items)

    def __getitem__(self, i):
        if _real_isinstance(i, _real_slice):
            idx = norm_slice(i, self.stop - self.start)
            if _real_isinstance(idx, range):
                return SMemoryView(self, idx.start, idx.stop)
            return mk_bytes([self._items()[j] for j in idx])
        i = conc_index(i)
        n = self.stop - self.start
        if i < 0:
            i += n
        if not 0 <= i < n:
            raise IndexError("index out of bounds on dimension 1")
        b = self.base
        if _real_isinstance(b, (SBytes, SByteArray)):
            return elem(b.items[self.start + i])
        return b[self.start + i]

    def __setitem__(self, i, v):
        if not _real_isinstance(self.base, SByteArray):
            raise TypeError("cannot modify read-only memory")
        self.base[self.start + conc_index(i)] = v

    def release(self):
        pass

    def __enter__(self):
        return self

    def __exit__(self, *a):
        return None

    @property
    def nbytes(self):
        return self.stop - self.start

    __hash__ = None


def sym_bytes(name, n, cls=None):
    e = E()
    items = []
    for i in range(n):
        t = z3.Int(f"{name}[{i}]")
        e.axiom(z3.And(t >= 0, t <= 255))
        items.append(t)
    e.register_input(name, "bytes", list(items))
    return (cls or SBytes)(items) if (items or cls) else b""


# ====================================================================== sets of ints
class SSet:
    """Set whose members are pairwise distinct under the path condition (concrete cardinality)."""

    def __init__(self, it=()):
        self.members = []
        for x in it:
            self.add(x)

    def _find(self, x):
        for i, m in enumerate(self.members):
            r = m == x
            if r is True or (r is not False and _real_bool(r)):
                return i
        return -1

    def __contains__(self, x):
        if not self.members:
            return False
        return _real_bool(sor(*[(m == x) for m in self.members]))

    def add(self, x):
        if self._find(x) < 0:
            self.members.append(x)

    def remove(self, x):
        i = self._find(x)
        if i < 0:
            raise KeyError(x)
        del self.members[i]

    def discard(self, x):
        i = self._find(x)
        if i >= 0:
            del self.members[i]

    def __len__(self):
        return _real_len(self.members)

    def __bool__(self):
        return _real_len(self.members) > 0

    def __iter__(self):
        return iter(list(self.members))

    def copy(self):
        s = SSet()
        s.members = list(self.members)
        return s

    def __deepcopy__(self, memo):
        return self.copy()

    def clear(self):
        self.members = []

    def __eq__(self, o):
        if not _real_isinstance(o, (SSet, set, frozenset)):
            return False
        om = list(o.members) if _real_isinstance(o, SSet) else list(o)
        if _real_len(om) != _real_len(self.members):
            return False
        return sand(*[sor(*[(m == x) for x in om]) for m in self.members])

    __hash__ = None

    def __repr__(self):
        return PLACEHOLDER


from .text import SStr  # noqa: E402  (cyclic: text needs the definitions above)
