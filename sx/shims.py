"""Symbolic-aware replacements for the builtins and stdlib modules the library uses.

The shadow modules get `SHIM_BUILTINS` as their `__builtins__`, so the real source resolves
`bytes`, `len`, `int`, `import struct` ... here.  Every shim falls back to the genuine builtin when
no proxy is involved.
"""
from __future__ import annotations

import base64 as _base64
import binascii as _binascii
import builtins

from . import hunt
import enum as _enum
import struct as _struct
import types
import z3

from . import core
from .core import Unsupported
from . import values as V
from . import ints as _ints
from . import text as T
from . import sre as _sre

_real_int = builtins.int
_real_bool = builtins.bool
_real_str = builtins.str
_real_bytes = builtins.bytes
_real_bytearray = builtins.bytearray
_real_memoryview = builtins.memoryview
_real_isinstance = builtins.isinstance
_real_len = builtins.len
_real_range = builtins.range
_real_set = builtins.set

PROXY_INT = (V.SInt, V.SBool)
PROXY_BYTES = (V.SBytes, V.SByteArray, V.SMemoryView)


def E():
    return core.cur


def is_proxy(x):
    return _real_isinstance(x, (V.SInt, V.SBool, V.SBytes, V.SByteArray, V.SMemoryView, T.SStr, V.SSet))


# ---------------------------------------------------------------------- type shims
class _Meta(type):
    _accept = ()
    _real = object

    def __getattr__(cls, name):
        # `str.translate(value, table)` / `bytes.hex(value)` / `int.bit_length(n)`: an unbound method
        # of the genuine type applied to a proxy is the proxy's own method
        real = cls.__dict__.get("_real", object)
        if name.startswith("__") or not hasattr(real, name):
            raise AttributeError(name)
        attr = getattr(real, name)
        if not callable(attr) or _real_isinstance(real.__dict__.get(name), (staticmethod, classmethod)):
            return attr

        def call(obj, *a, **k):
            if is_proxy(obj):
                return getattr(obj, name)(*a, **k)
            if not _real_isinstance(obj, real):
                raise TypeError(f"descriptor '{name}' for '{real.__name__}' objects doesn't apply to a '{type(obj).__name__}' object")
            return getattr(obj, name)(*a, **k)

        return call

    def __instancecheck__(cls, obj):
        return _real_isinstance(obj, cls._accept)

    def __subclasscheck__(cls, sub):
        return issubclass(sub, cls._accept)

    def __eq__(cls, other):
        return other is cls or other is cls._real

    def __hash__(cls):
        return hash(cls._real)

    def __repr__(cls):
        return repr(cls._real)


def sx_int(x=0, base=None):
    if base is None:
        if _real_isinstance(x, V.SInt):
            return x
        if _real_isinstance(x, V.SBool):
            return V.as_sint(x)
        if _real_isinstance(x, T.SStr):
            return _parse_decimal(x.items)
        if _real_isinstance(x, PROXY_BYTES):
            return _parse_decimal(x._items())
        return _real_int(x)
    if _real_isinstance(x, T.SStr):
        if base == 16:
            return _parse_hex(x.items)
        raise Unsupported(f"int(symbolic text, {base})")
    return _real_int(x, base)


def _parse_decimal(items):
    e = E()
    if not items:
        raise ValueError("invalid literal for int() with base 10: ''")
    val = 0
    for c in items:
        if _real_isinstance(c, _real_int):
            if not 48 <= c <= 57:
                # sign / whitespace / unicode digits: only the plain form is modelled
                raise Unsupported("int() of text that is not plain ASCII digits")
            val = val * 10 + (c - 48)
        else:
            if not e.decide(z3.And(c >= 48, c <= 57)):
                raise Unsupported("int() of symbolic text that is not plain ASCII digits")
            val = val * 10 + (V.SInt(c, 48, 57) - 48)
    return val


def _hexval(c):
    """element (int/term known to be a hex digit) -> int / SInt value"""
    if _real_isinstance(c, _real_int):
        return _real_int(chr(c), 16)
    t = z3.If(c <= 57, c - 48, z3.If(c <= 70, c - 55, c - 87))
    return V.SInt(t, 0, 15)


def _is_hex(c, upper_only=False):
    if _real_isinstance(c, _real_int):
        ch = chr(c)
        return ch in ("0123456789ABCDEF" if upper_only else "0123456789abcdefABCDEF")
    ts = [z3.And(c >= 48, c <= 57), z3.And(c >= 65, c <= 70)]
    if not upper_only:
        ts.append(z3.And(c >= 97, c <= 102))
    return E().decide(z3.Or(*ts))


def _parse_hex(items):
    val = 0
    for c in items:
        if not _is_hex(c):
            raise Unsupported("int(text, 16) of non-hex symbolic text")
        val = val * 16 + _hexval(c)
    return val


class ShimInt(metaclass=_Meta):
    _accept = (_real_int, V.SInt, V.SBool)
    _real = _real_int

    def __new__(cls, *a, **k):
        if cls is not ShimInt:
            return _real_int.__new__(cls, *a, **k)
        return sx_int(*a, **k)

    @staticmethod
    def from_bytes(b, byteorder="big", *, signed=False):
        if not _real_isinstance(b, PROXY_BYTES):
            return _real_int.from_bytes(b, byteorder, signed=signed)
        items = list(b._items())
        if byteorder == "little":
            items.reverse()
        val = 0
        for x in items:
            val = val * 256 + V.elem(x)
        if signed and items:
            n = _real_len(items)
            neg = V.elem(items[0]) >= 128
            val = V.site(neg, val - (1 << (8 * n)), val)
        return val


ShimInt._accept = (_real_int, V.SInt, V.SBool)


def sx_bool(x=False):
    if _real_isinstance(x, V.SBool):
        return x
    if _real_isinstance(x, V.SInt):
        if x.lo is not None and x.lo > 0:
            return True
        return V.mk_bool(x.t != 0)
    return _real_bool(x)


class ShimBool(metaclass=_Meta):
    _accept = (_real_bool, V.SBool)
    _real = _real_bool

    def __new__(cls, x=False):
        return sx_bool(x)


def sx_str(x="", *a, **k):
    if a or k:
        if _real_isinstance(x, PROXY_BYTES):
            return x.decode(*a, **k)
        return _real_str(x, *a, **k)
    if _real_isinstance(x, (T.SStr, _real_str)):
        return x
    if _real_isinstance(x, V.SInt):
        return int_to_text(x, "")
    if _real_isinstance(x, V.SBool):
        return "True" if x else "False"
    if _real_isinstance(x, BaseException) and type(x).__str__ in (BaseException.__str__, Exception.__str__):
        if _real_len(x.args) == 1:
            return sx_str(x.args[0])
        if not x.args:
            return ""
        return _real_str(x)
    f = type(x).__str__
    if _real_isinstance(f, types.FunctionType):
        r = f(x)
        if not _real_isinstance(r, (_real_str, T.SStr)):
            raise TypeError(f"__str__ returned non-string (type {type(r).__name__})")
        return r
    return _real_str(x)


class ShimStr(metaclass=_Meta):
    _accept = (_real_str, T.SStr)
    _real = _real_str

    def __new__(cls, *a, **k):
        if cls is not ShimStr:
            return _real_str.__new__(cls, *a, **k)
        return sx_str(*a, **k)

    @staticmethod
    def join(sep, it):
        return T.sjoin(sep, it)


def _items_from_iterable(x):
    if V.is_byteslike(x):
        return V.items_of(x)
    if _real_isinstance(x, (_real_int, V.SInt)) and not _real_isinstance(x, _real_bool):
        return [0] * V.conc_index(x)
    if _real_isinstance(x, (_real_str, T.SStr)):
        raise TypeError("string argument without an encoding")
    return [V.byte_item(v) for v in x]


def sx_bytes(x=b"", *a, **k):
    if a or k:
        if _real_isinstance(x, T.SStr):
            return x.encode(*a, **k)
        return _real_bytes(x, *a, **k)
    if _real_isinstance(x, _real_bytes):
        return x
    if _real_isinstance(x, (_real_bytearray, _real_memoryview)):
        return _real_bytes(x)
    if _real_isinstance(x, V.SInt):
        return V.mk_bytes([0] * V.conc_index(_ints.cost_guard(x, "bytes() of")))
    return V.mk_bytes(_items_from_iterable(x))


class ShimBytes(metaclass=_Meta):
    _accept = (_real_bytes, V.SBytes)
    _real = _real_bytes

    def __new__(cls, *a, **k):
        if cls is not ShimBytes:
            return _real_bytes.__new__(cls, *a, **k)
        return sx_bytes(*a, **k)

    @staticmethod
    def fromhex(s):
        """bytes.fromhex on symbolic text: ASCII whitespace is skipped, then pairs of hex digits"""
        if not _real_isinstance(s, T.SStr):
            return _real_bytes.fromhex(s)
        e = E()
        items, out, i = s.items, [], 0

        def isin(c, lo, hi):
            return (lo <= c <= hi) if _real_isinstance(c, _real_int) else e.decide(z3.And(c >= lo, c <= hi))

        def ws(c):
            return isin(c, 9, 13) or isin(c, 32, 32)

        def hexval(c, pos):
            if isin(c, 48, 57):
                return c - 48
            if isin(c, 97, 102):
                return c - 87
            if isin(c, 65, 70):
                return c - 55
            raise ValueError(f"non-hexadecimal number found in fromhex() arg at position {pos}")

        while i < _real_len(items):
            if ws(items[i]):
                i += 1
                continue
            hi = hexval(items[i], i)
            if i + 1 >= _real_len(items):
                raise ValueError(f"non-hexadecimal number found in fromhex() arg at position {i + 1}")
            lo = hexval(items[i + 1], i + 1)
            out.append(hi * 16 + lo)
            i += 2
        return V.mk_bytes(out)

    @staticmethod
    def join(sep, it):
        out = []
        first = True
        for x in it:
            if not first:
                out.extend(V.items_of(sep))
            first = False
            out.extend(V.items_of(x))
        return V.mk_bytes(out)


def sx_bytearray(x=b"", *a, **k):
    if a or k:
        return V.SByteArray(list(_real_bytearray(x, *a, **k)))
    if _real_isinstance(x, V.SInt):
        return V.SByteArray([0] * V.conc_index(_ints.cost_guard(x, "bytearray() of")))
    return V.SByteArray(_items_from_iterable(x))


class ShimByteArray(metaclass=_Meta):
    _accept = (_real_bytearray, V.SByteArray)
    _real = _real_bytearray

    def __new__(cls, *a, **k):
        return sx_bytearray(*a, **k)


def sx_memoryview(x):
    if _real_isinstance(x, PROXY_BYTES):
        return V.SMemoryView(x)
    return _real_memoryview(x)


class ShimMemoryView(metaclass=_Meta):
    _accept = (_real_memoryview, V.SMemoryView)
    _real = _real_memoryview

    def __new__(cls, x):
        return sx_memoryview(x)


class ShimSet(metaclass=_Meta):
    _accept = (_real_set, V.SSet)
    _real = _real_set

    def __new__(cls, it=()):
        return V.SSet(it)


# ---------------------------------------------------------------------- function shims
def sx_len(x):
    f = getattr(x, "__sx_len__", None)
    if f is not None:
        return f()
    return _real_len(x)


def sx_chr(i):
    if _real_isinstance(i, (V.SInt, V.SBool)):
        i = V.as_sint(i)
        if not (i.lo is not None and i.hi is not None and i.lo >= 0 and i.hi <= 0x10FFFF):
            if not E().decide(z3.And(i.t >= 0, i.t <= 0x10FFFF)):
                raise ValueError("chr() arg not in range(0x110000)")
        return T.SStr([i.t])
    return builtins.chr(i)


def sx_ord(c):
    if _real_isinstance(c, T.SStr):
        if _real_len(c.items) != 1:
            raise TypeError(f"ord() expected a character, but string of length {_real_len(c.items)} found")
        return V.celem(c.items[0])
    if _real_isinstance(c, PROXY_BYTES):
        it = c._items()
        if _real_len(it) != 1:
            raise TypeError(f"ord() expected a character, but string of length {_real_len(it)} found")
        return V.elem(it[0])
    return builtins.ord(c)


class SRange:
    """range() with symbolic bounds: iteration forks lazily on `i < stop`."""

    def __init__(self, start, stop, step):
        self.start, self.stop, self.step = start, stop, step
        if _real_isinstance(step, PROXY_INT):
            self.step = _real_int(step)
        if self.step == 0:
            raise ValueError("range() arg 3 must not be zero")

    def __iter__(self):
        i = self.start
        if self.step > 0:
            while _real_bool(i < self.stop):
                yield i
                i = i + self.step
        else:
            while _real_bool(i > self.stop):
                yield i
                i = i + self.step

    def _conc(self):
        return _real_range(V.conc_index(self.start), V.conc_index(self.stop), self.step)

    def __len__(self):
        return _real_len(self._conc())

    def __getitem__(self, i):
        return self._conc()[i]

    def __reversed__(self):
        return reversed(self._conc())


def sx_range(*a):
    if any(_real_isinstance(x, PROXY_INT) for x in a):
        if _real_len(a) == 1:
            return SRange(0, a[0], 1)
        if _real_len(a) == 2:
            return SRange(a[0], a[1], 1)
        return SRange(*a)
    return _real_range(*a)


def sx_isinstance(obj, cls):
    return _real_isinstance(obj, cls)


def sx_hex(x):
    return builtins.hex(x)


# ---------------------------------------------------------------------- formatting
def int_to_text(v, spec):
    """format(SInt, spec) for the numeric specs the library uses; symbolic digits, forking on size."""
    e = E()
    if spec in ("", "d"):
        base, pad, upper = 10, 0, False
    else:
        s = spec
        pad = 0
        zero = False
        if s and s[0] == "0":
            zero = True
            s = s[1:]
        w = ""
        while s and s[0].isdigit():
            w += s[0]
            s = s[1:]
        if s not in ("x", "X", "d") or (w and not zero):
            return V.PLACEHOLDER
        base = 16 if s in ("x", "X") else 10
        upper = s == "X"
        pad = _real_int(w) if w else 0
    if v.lo is None or v.hi is None or v.hi > 10**12 or v.lo < -(10**12):
        # unbounded ints only ever reach diagnostics: opaque stub (formatting is not the subject)
        return V.PLACEHOLDER
    neg = False
    if v.lo is None or v.lo < 0:
        if e.decide(v.t < 0):
            neg = True
            v = -v
    ndig = 1
    while True:
        lim = base**ndig
        if v.hi is not None and v.hi < lim:
            break
        if e.decide(v.t < lim):
            break
        ndig += 1
        if ndig > 40:
            raise Unsupported("formatting a very large symbolic int")
    out = []
    for k in range(ndig - 1, -1, -1):
        d = (v.t / (base**k)) % base
        if base == 10:
            out.append(V.note_bounds(z3.simplify(d + 48), 48, 57))
        else:
            out.append(V.note_bounds(z3.simplify(z3.If(d < 10, d + 48, d + (55 if upper else 87))), 48, 70 if upper else 102))
    width = ndig + (1 if neg else 0)
    lead = [45] if neg else []
    zeros = [48] * max(0, pad - width)
    return T.mk_str(lead + zeros + out)


def fstr(parts):
    """f-string: parts are str literals or (value, conversion, spec) triples"""
    out = []
    for p in parts:
        if _real_isinstance(p, _real_str):
            out.append(p)
            continue
        v, conv, spec = p
        if spec is None:
            spec = ""
        elif not _real_isinstance(spec, _real_str):
            spec = T.SStr.concretize(spec) if _real_isinstance(spec, T.SStr) else _real_str(spec)
        if conv == 115:
            v = sx_str(v)
        elif conv == 114:
            v = builtins.repr(v)
        elif conv == 97:
            v = builtins.ascii(v)
        if _real_isinstance(v, T.SStr):
            out.append(v if spec == "" else V.PLACEHOLDER)
        elif _real_isinstance(v, V.SInt):
            out.append(int_to_text(v, spec))
        elif _real_isinstance(v, V.SBool):
            out.append(V.PLACEHOLDER)
        elif spec == "" and not _real_isinstance(v, (_real_str, _real_int, float, _real_bytes, type(None))):
            try:
                out.append(sx_str(v))
            except TypeError:
                out.append(V.PLACEHOLDER)
        else:
            out.append(builtins.format(v, spec))
    if all(_real_isinstance(x, _real_str) for x in out):
        return "".join(out)
    items = []
    for x in out:
        items.extend(T.citems(x))
    return T.mk_str(items)


def strmeth(name, const, *args, **kw):
    """method call on a string/bytes literal whose arguments may be proxies"""
    if name == "join":
        (it,) = args
        seq = list(it)
        if _real_isinstance(const, _real_bytes):
            if any(_real_isinstance(x, PROXY_BYTES) for x in seq):
                return ShimBytes.join(const, seq)
            return const.join(seq)
        if any(_real_isinstance(x, T.SStr) for x in seq):
            return T.sjoin(const, seq)
        return const.join(seq)
    if name == "format":
        if any(is_proxy(a) for a in args) or any(is_proxy(a) for a in kw.values()):
            return V.PLACEHOLDER
        return const.format(*args, **kw)
    return getattr(const, name)(*args, **kw)


def pct(const, arg):
    args = arg if _real_isinstance(arg, tuple) else (arg,)
    if any(is_proxy(a) for a in args):
        return V.PLACEHOLDER
    return const % arg


_MISSING = object()


def _shape(v):
    if _real_isinstance(v, _real_bool):
        return ("bool",)
    if _real_isinstance(v, _real_int) and type(v) is _real_int:
        return ("int",)
    if type(v) is _real_str:
        return ("str", _real_len(v))
    if type(v) in (_real_bytes, _real_bytearray):
        return ("bytes", _real_len(v))
    return ("obj", id(v))


def sym_lookup(pairs, default=_MISSING, on_missing=None):
    """Table lookup with a symbolic key.  pairs: [(condition 'key == k_j' as a z3 Bool, value_j)],
    conditions mutually exclusive.  Values of the same shape (ints; text / octets of one length)
    are merged into ONE path whose result is an if-then-else term over the conditions; values of
    different shapes get a path each.  (Without this, a 256-entry table costs 256 paths per lookup.)"""
    e = E()
    groups = {}
    for cond, v in pairs:
        if z3.is_false(cond):
            continue
        groups.setdefault(_shape(v), []).append((cond, v))
    for shp, members in groups.items():
        conds = [c for c, _ in members]
        if any(z3.is_true(c) for c in conds):
            return [v for c, v in members if z3.is_true(c)][0]
        hit = z3.Or(*conds) if _real_len(conds) > 1 else conds[0]
        if not e.decide(hit):
            continue
        if _real_len(members) == 1 or shp[0] == "obj":
            return members[0][1]

        def ite(get):
            t = z3.IntVal(get(members[-1][1]))
            for c, v in reversed(members[:-1]):
                t = z3.If(c, z3.IntVal(get(v)), t)
            return z3.simplify(t)

        if shp[0] == "int":
            vals = [v for _, v in members]
            return V.mk_int(ite(lambda v: v), min(vals), max(vals))
        if shp[0] == "bool":
            return V.mk_int(ite(lambda v: 1 if v else 0), 0, 1) != 0
        n = shp[1]
        if shp[0] == "str":
            return T.mk_str([ite(lambda v, i=i: ord(v[i])) for i in range(n)])
        items = [ite(lambda v, i=i: v[i]) for i in range(n)]
        return V.mk_bytes(items)
    if on_missing is not None:
        raise on_missing
    return default


def _key_cond(key, k):
    r = key == k
    if r is NotImplemented or r is False:
        return z3.BoolVal(False)
    if r is True:
        return z3.BoolVal(True)
    return V.bterm(r)


def sx_get(obj, *args):
    """obj.get(key[, default]) with a symbolic key: one path per shape of value (see sym_lookup)"""
    if _real_isinstance(obj, dict) and args and is_proxy(args[0]):
        key = args[0]
        default = args[1] if _real_len(args) > 1 else None
        return sym_lookup([(_key_cond(key, k), v) for k, v in obj.items()], default)
    return obj.get(*args)


def sx_idx(obj, key):
    """obj[key]; a symbolic index into a genuine tuple / list / str / bytes / dict is a table lookup"""
    if not is_proxy(key):
        return obj[key]
    t = type(obj)
    if t is dict:
        return sym_lookup([(_key_cond(key, k), v) for k, v in obj.items()], on_missing=KeyError(PLACEHOLDER_KEY))
    if t in (tuple, list, _real_str, _real_bytes) and _real_isinstance(key, PROXY_INT) and not any(is_proxy(x) for x in (obj if t in (tuple, list) else ())):
        n = _real_len(obj)
        if n <= 4096:
            idx = key + 0
            e = E()
            if not e.decide(V.bterm(V.sand(idx >= -n, idx < n))):
                raise IndexError("index out of range")
            it = V.iterm(idx)
            off = n if e.decide(V.bterm(idx < 0)) else 0  # negative indices count from the end
            pairs = [(z3.simplify(it == z3.IntVal(j - off)), obj[j]) for j in range(n)]
            return sym_lookup(pairs, on_missing=IndexError("index out of range"))
    return obj[key]


PLACEHOLDER_KEY = "<symbolic key>"


# ---------------------------------------------------------------------- struct / base64
class _StructShim:
    error = _struct.error
    calcsize = staticmethod(_struct.calcsize)
    pack = staticmethod(_struct.pack)

    @staticmethod
    def unpack(fmt, data):
        if not _real_isinstance(data, PROXY_BYTES):
            return _struct.unpack(fmt, data)
        items = data._items()
        if fmt in ("B", "<B", ">B", "!B", "=B"):
            if _real_len(items) != 1:
                raise _struct.error("unpack requires a buffer of 1 bytes")
            return (V.elem(items[0]),)
        raise Unsupported(f"struct.unpack({fmt!r}) on symbolic data")


class _Base64Shim:
    b64encode = staticmethod(_base64.b64encode)
    b64decode = staticmethod(_base64.b64decode)
    b16encode = staticmethod(_base64.b16encode)

    @staticmethod
    def b16decode(s, casefold=False):
        if _real_isinstance(s, T.SStr):
            items = s.items
            for c in items:
                if _real_isinstance(c, _real_int):
                    if c > 127:
                        raise ValueError("string argument should contain only ASCII characters")
                elif not E().decide(c < 128):
                    raise ValueError("string argument should contain only ASCII characters")
        elif _real_isinstance(s, PROXY_BYTES):
            items = s._items()
        else:
            return _base64.b16decode(s, casefold)
        for c in items:
            if not _is_hex(c, upper_only=not casefold):
                raise _binascii.Error("Non-base16 digit found")
        if _real_len(items) % 2:
            raise _binascii.Error("Odd-length string")
        out = []
        for i in range(0, _real_len(items), 2):
            b = _hexval(items[i]) * 16 + _hexval(items[i + 1])
            out.append(b if _real_isinstance(b, _real_int) else z3.simplify(b.t))
        return V.mk_bytes(out)


# ---------------------------------------------------------------------- enum
class SEnumInt(V.SInt):
    """A member of an IntEnum whose identity is symbolic (one of the members, by path condition)."""

    __slots__ = ("_cls", "_base")

    def __init__(self, cls, s):
        V.SInt.__init__(self, None, s.lo, s.hi, s.m, s.r)
        self.op = "add"
        self.args = (s, 0)
        self._cls = cls
        self._base = s

    @property
    def value(self):
        b = self._base
        # keep refinements made through either object
        if self.lo is not None and (b.lo is None or self.lo > b.lo):
            b.lo = self.lo
        if self.hi is not None and (b.hi is None or self.hi < b.hi):
            b.hi = self.hi
        return V.norm(b)

    @property
    def name(self):
        return V.PLACEHOLDER

    _value_ = value
    _name_ = name


class _MemberMap(dict):
    """_value2member_map_ that never stores a symbolic key (module state must stay path-independent)."""

    def setdefault(self, k, d=None):
        if is_proxy(k):
            return d
        return dict.setdefault(self, k, d)

    def __setitem__(self, k, v):
        if is_proxy(k):
            return
        dict.__setitem__(self, k, v)


class SxEnumMeta(_enum.EnumMeta):
    def __call__(cls, value, *a, **k):
        if a or k or not _real_isinstance(value, (V.SInt, V.SBool)) or not issubclass(cls, _real_int):
            if is_proxy(value) and not (a or k):
                # a text / octets valued enumeration looked up with a symbolic value: one path per
                # member whose value can be equal, ValueError otherwise
                for m in cls:
                    r = value == m.value
                    if r is True or (r is not False and r is not NotImplemented and _real_bool(r)):
                        return m
                raise ValueError(f"{PLACEHOLDER_KEY} is not a valid {cls.__qualname__}")
            if is_proxy(value):
                raise Unsupported(f"{cls.__name__}(symbolic value with extra arguments)")
            return super().__call__(value, *a, **k)
        value = V.as_sint(value)
        if not _real_isinstance(cls._value2member_map_, _MemberMap):
            type.__setattr__(cls, "_value2member_map_", _MemberMap(cls._value2member_map_))
        vals = sorted({m.value for m in cls.__members__.values()})
        # contiguous runs keep the membership test small
        conds = []
        i = 0
        while i < _real_len(vals):
            j = i
            while j + 1 < _real_len(vals) and vals[j + 1] == vals[j] + 1:
                j += 1
            conds.append(z3.And(value.t >= vals[i], value.t <= vals[j]) if j > i else value.t == vals[i])
            i = j + 1
        if vals and E().decide(z3.Or(*conds) if _real_len(conds) > 1 else conds[0]):
            lo = vals[0] if value.lo is None else max(value.lo, vals[0])
            hi = vals[-1] if value.hi is None else min(value.hi, vals[-1])
            if lo == hi:
                return super().__call__(lo)
            if value.lo is None or lo > value.lo:
                value.lo = lo
            if value.hi is None or hi < value.hi:
                value.hi = hi
            return SEnumInt(cls, value)
        r = cls._missing_(value)
        if r is None:
            raise ValueError(f"{V.PLACEHOLDER} is not a valid {cls.__qualname__}")
        return r


class _EnumShim:
    EnumMeta = SxEnumMeta
    EnumType = SxEnumMeta
    auto = _enum.auto
    unique = staticmethod(_enum.unique)
    Flag = _enum.Flag
    IntFlag = _enum.IntFlag

    class Enum(_enum.Enum, metaclass=SxEnumMeta):
        pass

    class IntEnum(_enum.IntEnum, metaclass=SxEnumMeta):
        pass


SHIM_MODULES = {
    "struct": _StructShim,
    "base64": _Base64Shim,
    "enum": _EnumShim,
    "re": _sre,
}


def sx_in(item, container):
    """`item in container` where a genuine str / bytes container meets a symbolic item"""
    if _real_isinstance(container, _real_str) and _real_isinstance(item, T.SStr):
        return T.SStr([ord(ch) for ch in container]).__contains__(item)
    if _real_isinstance(container, (_real_bytes, _real_bytearray)) and (V.is_byteslike(item) or _real_isinstance(item, V.SInt)) and not _real_isinstance(item, (_real_bytes, _real_bytearray, _real_int)):
        return V.SBytes(list(container)).__contains__(item)
    if _real_isinstance(container, (range, SRange)) and _real_isinstance(item, PROXY_INT):
        # arithmetic membership (CPython would iterate the range comparing with ==)
        st, sp, step = container.start, container.stop, container.step
        if step > 0:
            inside = V.sand(item >= st, item < sp)
        else:
            inside = V.sand(item <= st, item > sp)
        if step not in (1, -1):
            inside = V.sand(inside, (item - st) % step == 0)
        return _real_bool(inside)
    return item in container


def sx_import(name, globals=None, locals=None, fromlist=(), level=0):
    if level == 0 and name in SHIM_MODULES:
        return SHIM_MODULES[name]
    mod = builtins.__import__(name, globals, locals, fromlist, level)
    if level == 0 and name in hunt.HUNT_MODULES:
        # no model for these: symbolic arguments are pinned to palette values (see sx/hunt.py)
        return hunt.HuntModule(mod)
    return mod


def make_builtins():
    d = dict(builtins.__dict__)
    d.update(
        {
            "int": ShimInt,
            "bool": ShimBool,
            "str": ShimStr,
            "bytes": ShimBytes,
            "bytearray": ShimByteArray,
            "memoryview": ShimMemoryView,
            "set": ShimSet,
            "len": sx_len,
            "chr": sx_chr,
            "ord": sx_ord,
            "range": sx_range,
            "__import__": sx_import,
            "__sx_fstr__": fstr,
            "__sx_strmeth__": strmeth,
            "__sx_pct__": pct,
            "__sx_get__": sx_get,
            "__sx_in__": sx_in,
            "__sx_idx__": sx_idx,
            "__sx_real_int__": _real_int,
            "__sx_real_str__": _real_str,
            "__sx_real_bytes__": _real_bytes,
            "__sx_real_bool__": _real_bool,
            "__sx_real_bytearray__": _real_bytearray,
        }
    )
    return d
