"""SStr: text with concrete length and symbolic code points; UTF-8 codec over element lists."""
from __future__ import annotations

import builtins
import z3

from . import core
from .core import Unsupported
from . import values as V

_real_int = builtins.int
_real_str = builtins.str
_real_bool = builtins.bool
_real_isinstance = builtins.isinstance
_real_len = builtins.len
_real_slice = builtins.slice


def E():
    return core.cur


def mk_str(items):
    if V.all_concrete(items):
        return "".join(chr(c) for c in items)
    return SStr(items)


def citems(x):
    if _real_isinstance(x, SStr):
        return x.items
    if _real_isinstance(x, _real_str):
        return [ord(c) for c in x]
    raise TypeError(f"must be str, not {type(x).__name__}")


def is_text(x):
    return _real_isinstance(x, (_real_str, SStr))


def _in_set(c, chars):
    """code point element c in concrete char list -> bool/SBool"""
    if _real_isinstance(c, _real_int):
        return c in chars
    return V.sor(*[V.mk_bool(c == k) for k in chars])


class SStr:
    __slots__ = ("items",)

    def __init__(self, items):
        self.items = items

    def __len__(self):
        return _real_len(self.items)

    def __bool__(self):
        return _real_len(self.items) > 0

    def __iter__(self):
        for x in list(self.items):
            yield mk_str([x])

    def __getitem__(self, i):
        if _real_isinstance(i, _real_slice):
            idx = V.norm_slice(i, _real_len(self.items))
            if _real_isinstance(idx, range):
                return mk_str(self.items[idx.start : idx.stop])
            return mk_str([self.items[j] for j in idx])
        i = V.conc_index(i)
        return mk_str([self.items[i]])

    def __eq__(self, o):
        if not is_text(o):
            return False
        return V.seq_eq(self.items, citems(o))

    def __ne__(self, o):
        return V.snot(self.__eq__(o))

    def __hash__(self):
        # hashing pins every character (one path per value): affordable for a character or two that
        # the path condition has already narrowed down, hopeless for free text - say so at once
        nsym = sum(1 for c in self.items if not _real_isinstance(c, _real_int))
        if nsym > 2:
            raise Unsupported("hashing text with more than two symbolic characters (used as a dictionary / cache key)")
        return hash(self.concretize())

    def concretize(self):
        return "".join(chr(c) for c in V.conc_items(self.items))

    def __getattr__(self, name):
        # a str method without a model (isascii, casefold, translate, ...): pin the text to palette
        # values and run the real method - the unit becomes partial (see sx/hunt.py)
        if name.startswith("__") or not hasattr("", name):
            raise AttributeError(name)
        from . import hunt

        def call(*a, **kw):
            what = "str." + name
            return getattr(hunt.conc(self, what), name)(*[hunt.conc(x, what) for x in a], **{k: hunt.conc(x, what) for k, x in kw.items()})

        return call

    def __add__(self, o):
        if not is_text(o):
            return NotImplemented
        return mk_str(self.items + citems(o))

    def __radd__(self, o):
        if not is_text(o):
            return NotImplemented
        return mk_str(citems(o) + self.items)

    def __mul__(self, n):
        from .ints import cost_guard

        return mk_str(self.items * V.conc_index(cost_guard(n, "repetition by")))

    def __contains__(self, o):
        return self.find(o) >= 0

    def __repr__(self):
        return V.PLACEHOLDER

    __str__ = __repr__

    def __format__(self, spec):
        return V.PLACEHOLDER

    def __lt__(self, o):
        raise Unsupported("ordering of symbolic text")

    def __deepcopy__(self, memo):
        return self

    # ---- searching / splitting
    def find(self, sub, start=0, end=None):
        sub = citems(sub)
        k = _real_len(sub)
        start, end = self._rng(start, end)
        for i in range(start, end - k + 1):
            if _real_bool(V.seq_eq(self.items[i : i + k], sub)):
                return i
        return -1

    def index(self, sub, start=0, end=None):
        r = self.find(sub, start, end)
        if r < 0:
            raise ValueError("substring not found")
        return r

    def _rng(self, start, end):
        n = _real_len(self.items)
        a = 0 if start is None else V.conc_index(start)
        b = n if end is None else V.conc_index(end)
        if a < 0:
            a = max(0, a + n)
        if b < 0:
            b = max(0, b + n)
        return a, min(b, n)

    def rfind(self, sub, start=None, end=None):
        sub = citems(sub)
        a, b = self._rng(start, end)
        k = _real_len(sub)
        for i in range(b - k, a - 1, -1):
            if _real_bool(V.seq_eq(self.items[i : i + k], sub)):
                return i
        return -1

    def rindex(self, sub, start=None, end=None):
        r = self.rfind(sub, start, end)
        if r < 0:
            raise ValueError("substring not found")
        return r

    def count(self, sub, start=None, end=None):
        sub = citems(sub)
        a, b = self._rng(start, end)
        k = _real_len(sub)
        if k == 0:
            return max(0, b - a) + 1
        n, i = 0, a
        while i <= b - k:
            if _real_bool(V.seq_eq(self.items[i : i + k], sub)):
                n += 1
                i += k
            else:
                i += 1
        return n

    def _affix(self, p, start, end, at_end):
        if _real_isinstance(p, tuple):
            for q in p:
                if self._affix(q, start, end, at_end):
                    return True
            return False
        p = citems(p)
        a, b = self._rng(start, end)
        items = self.items[a:b] if a <= b else []
        if _real_len(p) > _real_len(items):
            return False
        part = items[_real_len(items) - _real_len(p) :] if at_end else items[: _real_len(p)]
        return _real_bool(V.seq_eq(part, p))

    def startswith(self, p, start=None, end=None):
        return self._affix(p, start, end, False)

    def endswith(self, p, start=None, end=None):
        return self._affix(p, start, end, True)

    def rpartition(self, sep):
        i = self.rfind(sep)
        if i < 0:
            return "", "", self
        k = _real_len(citems(sep))
        return mk_str(self.items[:i]), sep, mk_str(self.items[i + k :])

    def split(self, sep=None, maxsplit=-1):
        if sep is None:
            # runs of Unicode whitespace separate the pieces; no empty pieces
            out, cur = [], []
            items = self.items
            i, n = 0, _real_len(items)
            while i < n:
                if _real_bool(_in_set(items[i], _WS)):
                    if cur:
                        out.append(mk_str(cur))
                        cur = []
                        if maxsplit >= 0 and _real_len(out) >= maxsplit:
                            j = i
                            while j < n and _real_bool(_in_set(items[j], _WS)):
                                j += 1
                            if j < n:
                                out.append(mk_str(items[j:]))
                            return out
                else:
                    cur.append(items[i])
                i += 1
            if cur:
                out.append(mk_str(cur))
            return out
        sep = citems(sep)
        k = _real_len(sep)
        if k == 0:
            raise ValueError("empty separator")
        items = self.items
        out, cur, i = [], [], 0
        while i < _real_len(items):
            if (
                (maxsplit < 0 or _real_len(out) < maxsplit)
                and i + k <= _real_len(items)
                and _real_bool(V.seq_eq(items[i : i + k], sep))
            ):
                out.append(mk_str(cur))
                cur = []
                i += k
            else:
                cur.append(items[i])
                i += 1
        out.append(mk_str(cur))
        return out

    def partition(self, sep):
        i = self.find(sep)
        if i < 0:
            return self, "", ""
        k = _real_len(citems(sep))
        return mk_str(self.items[:i]), sep, mk_str(self.items[i + k :])

    def _strip_set(self, chars):
        if chars is None:
            raise Unsupported("strip() of whitespace on symbolic text")
        return citems(chars)

    def lstrip(self, chars=None):
        cs = self._strip_set(chars)
        i = 0
        while i < _real_len(self.items) and _real_bool(_in_set(self.items[i], cs)):
            i += 1
        return mk_str(self.items[i:])

    def rstrip(self, chars=None):
        cs = self._strip_set(chars)
        j = _real_len(self.items)
        while j > 0 and _real_bool(_in_set(self.items[j - 1], cs)):
            j -= 1
        return mk_str(self.items[:j])

    def strip(self, chars=None):
        if chars is None:
            return strip_ws(self)
        r = self.lstrip(chars)
        return r.rstrip(chars) if _real_isinstance(r, SStr) else r.rstrip(chars)

    def join(self, it):
        return sjoin(self, it)

    def replace(self, old, new, count=-1):
        parts = self.split(old, count)
        return sjoin(new, parts)

    def upper(self):
        return _case_map(self.items, True)

    def lower(self):
        return _case_map(self.items, False)

    def translate(self, table):
        """str.translate with a dict table: a symbolic character is a table lookup (one path per
        shape of replacement), characters outside the table map to themselves"""
        from . import shims

        if not _real_isinstance(table, dict):
            raise Unsupported("str.translate with a non-dict table on symbolic text")
        out = []
        for c in self.items:
            if _real_isinstance(c, _real_int):
                r = table.get(c, c)
            else:
                pairs = [(z3.simplify(c == z3.IntVal(k)), v) for k, v in table.items() if _real_isinstance(k, _real_int)]
                r = shims.sym_lookup(pairs, default=shims._MISSING)
                if r is shims._MISSING:
                    r = None
                    out.append(c)
                    continue
            if r is None:
                continue
            if _real_isinstance(r, _real_int):
                out.append(r)
            else:
                out.extend(citems(r))
        return mk_str(out)

    def isascii(self):
        for c in self.items:
            if _real_isinstance(c, _real_int):
                if c >= 128:
                    return False
            elif not E().decide(c < 128):
                return False
        return True

    def isdigit(self):
        if not self.items:
            return False
        for c in self.items:
            if _real_isinstance(c, _real_int):
                if not chr(c).isdigit():
                    return False
            else:
                if not E().decide(c < 128):
                    raise Unsupported("isdigit() on symbolic non-ASCII text")
                if not E().decide(z3.And(c >= 48, c <= 57)):
                    return False
        return True

    def encode(self, encoding="utf-8", errors="strict"):
        enc = encoding.lower().replace("_", "-")
        if enc in ("ascii", "us-ascii", "latin-1", "latin1", "iso-8859-1"):
            lim = 128 if enc.startswith(("ascii", "us-")) else 256
            if errors != "strict":
                raise Unsupported(f"encode({encoding!r}, errors={errors!r})")
            for i, c in enumerate(self.items):
                ok = c < lim if _real_isinstance(c, _real_int) else E().decide(c < lim)
                if not ok:
                    raise UnicodeEncodeError(enc, "?", i, i + 1, "ordinal not in range")
            return V.mk_bytes(list(self.items))
        if enc not in ("utf-8", "utf8"):
            raise Unsupported(f"encode({encoding!r})")
        return V.mk_bytes(utf8_encode(self.items, errors))


_SPECIAL_CASE = {}


def _special(upper):
    """non-ASCII code points whose upper()/lower() contains an ASCII character or is not exactly
    one code point - the only ones for which an opaque non-ASCII result would be wrong"""
    t = _SPECIAL_CASE.get(upper)
    if t is None:
        t = {}
        for cp in range(128, 0x110000):
            if 0xD800 <= cp <= 0xDFFF:
                continue
            r = chr(cp).upper() if upper else chr(cp).lower()
            if _real_len(r) != 1 or ord(r) < 128:
                t[cp] = [ord(x) for x in r]
        _SPECIAL_CASE[upper] = t
    return t


def _case_map(items, upper):
    """str.upper() / str.lower(): exact for ASCII and for the few non-ASCII code points that map
    into ASCII or change length; any other non-ASCII code point maps to an opaque non-ASCII one
    (enough for comparisons with ASCII keywords; a model relying on it must reproduce concretely)."""
    e = E()
    out = []
    for c in items:
        if _real_isinstance(c, _real_int):
            r = chr(c).upper() if upper else chr(c).lower()
            out.extend(ord(x) for x in r)
            continue
        if e.decide(c < 128):
            if upper:
                out.append(z3.If(z3.And(c >= 97, c <= 122), c - 32, c))
            else:
                out.append(z3.If(z3.And(c >= 65, c <= 90), c + 32, c))
            continue
        done = False
        for cp, res in _special(upper).items():
            if e.decide(c == cp):
                out.extend(res)
                done = True
                break
        if done:
            continue
        t = e.fresh("case")
        e.axiom(z3.And(t >= 128, t <= 0x10FFFF))
        out.append(t)
    return mk_str(out)


_WS = [9, 10, 11, 12, 13, 28, 29, 30, 31, 32, 133, 160, 5760] + list(range(8192, 8203)) + [
    8232,
    8233,
    8239,
    8287,
    12288,
]


def strip_ws(s):
    """str.strip() with no argument: Unicode whitespace (str.isspace) at both ends."""
    items = citems(s)
    i, j = 0, _real_len(items)
    while i < j and _real_bool(_in_set(items[i], _WS)):
        i += 1
    while j > i and _real_bool(_in_set(items[j - 1], _WS)):
        j -= 1
    return mk_str(items[i:j])


def sjoin(sep, it):
    sep = citems(sep)
    out = []
    first = True
    for x in it:
        if not first:
            out.extend(sep)
        first = False
        if not is_text(x):
            raise TypeError(f"sequence item: expected str instance, {type(x).__name__} found")
        out.extend(citems(x))
    return mk_str(out)


def sym_str(name, n, lo=0, hi=0x10FFFF, surrogates=False):
    e = E()
    items = []
    for i in range(n):
        t = z3.Int(f"{name}[{i}]")
        e.axiom(z3.And(t >= lo, t <= hi))
        if not surrogates and lo <= 0xDFFF and hi >= 0xD800:
            e.axiom(z3.Or(t < 0xD800, t > 0xDFFF))
        items.append(t)
    e.register_input(name, "str", list(items))
    return SStr(items) if items else ""


# ====================================================================== UTF-8
def utf8_encode(items, errors="strict"):
    out = []
    e = E()
    for pos, c in enumerate(items):
        if _real_isinstance(c, _real_int):
            ch = chr(c)
            try:
                out.extend(ch.encode("utf-8", errors))
            except UnicodeEncodeError as ex:
                raise UnicodeEncodeError("utf-8", V.PLACEHOLDER, pos, pos + 1, ex.reason) from None
            continue
        if e.decide(c < 0x80):
            out.append(c)
        elif e.decide(c < 0x800):
            out.append(_nb(0xC0 + c / 64, 0xC2, 0xDF))
            out.append(_nb(0x80 + c % 64, 0x80, 0xBF))
        elif e.decide(c < 0x10000):
            if e.decide(z3.And(c >= 0xD800, c <= 0xDFFF)):
                if errors == "surrogateescape" and e.decide(z3.And(c >= 0xDC80, c <= 0xDCFF)):
                    out.append(c - 0xDC00)
                    continue
                if errors not in ("strict", "surrogateescape"):
                    raise Unsupported(f"encode errors={errors}")
                raise UnicodeEncodeError("utf-8", V.PLACEHOLDER, pos, pos + 1, "surrogates not allowed")
            out.append(_nb(0xE0 + c / 4096, 0xE0, 0xEF))
            out.append(_nb(0x80 + (c / 64) % 64, 0x80, 0xBF))
            out.append(_nb(0x80 + c % 64, 0x80, 0xBF))
        else:
            out.append(_nb(0xF0 + c / 262144, 0xF0, 0xF4))
            out.append(_nb(0x80 + (c / 4096) % 64, 0x80, 0xBF))
            out.append(_nb(0x80 + (c / 64) % 64, 0x80, 0xBF))
            out.append(_nb(0x80 + c % 64, 0x80, 0xBF))
    res = []
    for x in out:
        if _real_isinstance(x, _real_int):
            res.append(x)
            continue
        x = z3.simplify(x)
        res.append(x)
    return res


def _nb(t, lo, hi):
    if _real_isinstance(t, _real_int):
        return t
    return V.note_bounds(z3.simplify(t), lo, hi)


def _rng(b, lo, hi):
    """is byte element b within [lo, hi] -> python bool (forks when symbolic)"""
    if _real_isinstance(b, _real_int):
        return lo <= b <= hi
    return E().decide(z3.And(b >= lo, b <= hi))


def single_byte_decode(items, ascii_only, errors="strict"):
    """bytes.decode('ascii' | 'latin-1')"""
    if errors != "strict" and ascii_only:
        raise Unsupported(f"decode('ascii', errors={errors!r})")
    if ascii_only:
        for i, c in enumerate(items):
            ok = c < 128 if _real_isinstance(c, _real_int) else E().decide(c < 128)
            if not ok:
                raise UnicodeDecodeError("ascii", b"?", i, i + 1, "ordinal not in range(128)")
    return mk_str(list(items))


def utf8_decode(items, errors="strict"):
    if V.all_concrete(items):
        return bytes(items).decode("utf-8", errors)
    if errors not in ("strict", "surrogateescape"):
        raise Unsupported(f"decode errors={errors}")
    n = _real_len(items)
    out = []
    i = 0

    def bad(pos, end, reason):
        if errors == "surrogateescape":
            # CPython escapes the offending bytes one by one (all are >= 0x80 here)
            return True
        raise UnicodeDecodeError("utf-8", b"", pos, end, reason)

    while i < n:
        b = items[i]
        if _rng(b, 0, 0x7F):
            out.append(b)
            i += 1
            continue
        # classify the lead byte
        if _rng(b, 0xC2, 0xDF):
            need, lo2, hi2 = 1, 0x80, 0xBF
        elif _rng(b, 0xE0, 0xEF):
            need = 2
            if _rng(b, 0xE0, 0xE0):
                lo2, hi2 = 0xA0, 0xBF
            elif _rng(b, 0xED, 0xED):
                lo2, hi2 = 0x80, 0x9F
            else:
                lo2, hi2 = 0x80, 0xBF
        elif _rng(b, 0xF0, 0xF4):
            need = 3
            if _rng(b, 0xF0, 0xF0):
                lo2, hi2 = 0x90, 0xBF
            elif _rng(b, 0xF4, 0xF4):
                lo2, hi2 = 0x80, 0x8F
            else:
                lo2, hi2 = 0x80, 0xBF
        else:
            bad(i, i + 1, "invalid start byte")
            out.append(_nb(0xDC00 + b, 0xDC80, 0xDCFF))
            i += 1
            continue
        ok = True
        k = 1
        while k <= need:
            if i + k >= n:
                ok = False
                reason = "unexpected end of data"
                break
            c = items[i + k]
            l, h = (lo2, hi2) if k == 1 else (0x80, 0xBF)
            if not _rng(c, l, h):
                ok = False
                reason = "invalid continuation byte"
                break
            k += 1
        if not ok:
            bad(i, i + k, reason)
            out.append(_nb(0xDC00 + b, 0xDC80, 0xDCFF))
            i += 1
            continue
        if need == 1:
            cp = _nb((b - 0xC0) * 64 + (items[i + 1] - 0x80), 0x80, 0x7FF)
        elif need == 2:
            cp = _nb((b - 0xE0) * 4096 + (items[i + 1] - 0x80) * 64 + (items[i + 2] - 0x80), 0x800, 0xFFFF)
        else:
            cp = _nb(
                (b - 0xF0) * 262144
                + (items[i + 1] - 0x80) * 4096
                + (items[i + 2] - 0x80) * 64
                + (items[i + 3] - 0x80),
                0x10000,
                0x10FFFF,
            )
        out.append(cp)
        i += need + 1
    return mk_str([x if _real_isinstance(x, _real_int) else z3.simplify(x) for x in out])
