"""Shadow package loader: the files currently in /repo/src/sansldap are parsed, passed through a
small semantics-preserving AST rewrite and executed in modules whose `__builtins__` is the shim
dictionary.  Nothing is cached across processes: the encoding is regenerated from the working tree.
"""
from __future__ import annotations

import ast
import builtins
import importlib.abc
import importlib.util
import os
import sys
import types

from . import shims

REPO_SRC = os.environ.get("SX_REPO_SRC", "/repo/src")
PKG = "sansldap"

_REAL_BASES = {"int", "str", "bytes", "bool", "bytearray"}


class _Rewriter(ast.NodeTransformer):
    def __init__(self):
        self.counts = {"fstr": 0, "strmeth": 0, "pct": 0, "get": 0, "bases": 0}

    def visit_JoinedStr(self, node):
        parts = []
        for v in node.values:
            if isinstance(v, ast.Constant):
                parts.append(v)
            else:  # FormattedValue
                spec = v.format_spec
                if spec is None:
                    spec_e = ast.Constant(None)
                else:
                    spec_e = self.visit_JoinedStr(spec)
                parts.append(
                    ast.Tuple(
                        elts=[self.visit(v.value), ast.Constant(v.conversion), spec_e],
                        ctx=ast.Load(),
                    )
                )
        self.counts["fstr"] += 1
        return ast.Call(
            func=ast.Name("__sx_fstr__", ast.Load()),
            args=[ast.List(elts=parts, ctx=ast.Load())],
            keywords=[],
        )

    def visit_Call(self, node):
        self.generic_visit(node)
        f = node.func
        if isinstance(f, ast.Attribute):
            if isinstance(f.value, ast.Constant) and isinstance(f.value.value, (str, bytes)):
                self.counts["strmeth"] += 1
                return ast.Call(
                    func=ast.Name("__sx_strmeth__", ast.Load()),
                    args=[ast.Constant(f.attr), f.value] + node.args,
                    keywords=node.keywords,
                )
            if f.attr == "get" and 1 <= len(node.args) <= 2 and not node.keywords:
                self.counts["get"] += 1
                return ast.Call(
                    func=ast.Name("__sx_get__", ast.Load()),
                    args=[f.value] + node.args,
                    keywords=[],
                )
        return node

    def visit_BinOp(self, node):
        self.generic_visit(node)
        if (
            isinstance(node.op, ast.Mod)
            and isinstance(node.left, ast.Constant)
            and isinstance(node.left.value, (str, bytes))
        ):
            self.counts["pct"] += 1
            return ast.Call(
                func=ast.Name("__sx_pct__", ast.Load()),
                args=[node.left, node.right],
                keywords=[],
            )
        return node

    def visit_Compare(self, node):
        # `x in "literal"` / `x in name`: with a real str/bytes container and a symbolic item CPython
        # raises TypeError before any proxy method is consulted
        self.generic_visit(node)
        if len(node.ops) == 1 and isinstance(node.ops[0], (ast.In, ast.NotIn)):
            self.counts["in"] = self.counts.get("in", 0) + 1
            call = ast.Call(func=ast.Name("__sx_in__", ast.Load()), args=[node.left, node.comparators[0]], keywords=[])
            if isinstance(node.ops[0], ast.NotIn):
                return ast.UnaryOp(op=ast.Not(), operand=call)
            return call
        return node

    def visit_Subscript(self, node):
        # `table[i]` with a symbolic index: CPython would ask the proxy for a concrete __index__
        # (one path per value); the shim turns it into one lookup term per shape of entry
        self.generic_visit(node)
        if not isinstance(node.ctx, ast.Load):
            return node
        sl = node.slice
        if isinstance(sl, (ast.Slice, ast.Tuple)) or (isinstance(sl, ast.Constant) and not isinstance(sl.value, bool)):
            return node  # slices and constant subscripts need no help
        self.counts["idx"] = self.counts.get("idx", 0) + 1
        return ast.Call(func=ast.Name("__sx_idx__", ast.Load()), args=[node.value, sl], keywords=[])

    def visit_ClassDef(self, node):
        self.generic_visit(node)
        for i, b in enumerate(node.bases):
            if isinstance(b, ast.Name) and b.id in _REAL_BASES:
                node.bases[i] = ast.Name(f"__sx_real_{b.id}__", ast.Load())
                self.counts["bases"] += 1
        return node


_CODE_CACHE = {}  # (path, mtime) -> (code, rewrite counts); per process, rebuilt from the tree on every run


class ShadowPackage:
    """One private copy of the library running on proxies."""

    _n = 0

    def __init__(self, src_root=None, pkg=PKG):
        ShadowPackage._n += 1
        self.alias = f"sxshadow{ShadowPackage._n}"
        self.src = os.path.join(src_root or REPO_SRC, pkg)
        self.builtins = shims.make_builtins()
        self.pkg = pkg
        self.builtins["__import__"] = self._import
        self.rewrites = {}
        self.files = {}
        self._finder = _Finder(self)
        sys.meta_path.insert(0, self._finder)
        self.root = importlib.import_module(self.alias)

    def _import(self, name, globals=None, locals=None, fromlist=(), level=0):
        if level == 0 and (name == self.pkg or name.startswith(self.pkg + ".")):
            full = self.alias + name[len(self.pkg):]
            mod = importlib.import_module(full)
            return mod if fromlist else self.root_module()
        return shims.sx_import(name, globals, locals, fromlist, level)

    def root_module(self):
        return sys.modules[self.alias]

    def module(self, name):
        """submodule by its name in the real package, e.g. 'asn1', '_session'"""
        return importlib.import_module(f"{self.alias}.{name}")

    def close(self):
        try:
            sys.meta_path.remove(self._finder)
        except ValueError:
            pass
        for k in [k for k in sys.modules if k == self.alias or k.startswith(self.alias + ".")]:
            del sys.modules[k]


class _Finder(importlib.abc.MetaPathFinder, importlib.abc.Loader):
    def __init__(self, sp):
        self.sp = sp

    def _path(self, fullname):
        parts = fullname.split(".")
        if parts[0] != self.sp.alias:
            return None, False
        rel = parts[1:]
        base = os.path.join(self.sp.src, *rel)
        if os.path.isdir(base) and os.path.exists(os.path.join(base, "__init__.py")):
            return os.path.join(base, "__init__.py"), True
        if os.path.exists(base + ".py"):
            return base + ".py", False
        return None, False

    def find_spec(self, fullname, path=None, target=None):
        p, is_pkg = self._path(fullname)
        if p is None:
            return None
        spec = importlib.util.spec_from_loader(fullname, self, origin=p, is_package=is_pkg)
        if is_pkg:
            spec.submodule_search_locations = [os.path.dirname(p)]
        return spec

    def create_module(self, spec):
        return None

    def exec_module(self, module):
        p = module.__spec__.origin
        key = (p, os.stat(p).st_mtime_ns)
        hit = _CODE_CACHE.get(key)
        if hit is None:
            with open(p, "r", encoding="utf-8") as fh:
                src = fh.read()
            tree = ast.parse(src, filename=p)
            rw = _Rewriter()
            tree = rw.visit(tree)
            ast.fix_missing_locations(tree)
            hit = _CODE_CACHE[key] = (compile(tree, p, "exec", dont_inherit=True), rw.counts)
        code, counts = hit
        self.sp.rewrites[module.__name__] = counts
        self.sp.files[module.__name__] = p
        module.__dict__["__builtins__"] = self.sp.builtins
        module.__file__ = p
        exec(code, module.__dict__)


def load_real(src_root=None, pkg=PKG, fresh=False):
    """The genuine package from the same tree (for replays / concrete validation).
    fresh=True re-imports it (new module objects, so no state survives from earlier use)."""
    root = src_root or REPO_SRC
    if root not in sys.path:
        sys.path.insert(0, root)
    if fresh:
        saved = {k: v for k, v in sys.modules.items() if k == pkg or k.startswith(pkg + ".")}
        for k in saved:
            del sys.modules[k]
        try:
            mod = importlib.import_module(pkg)
            for sub in ("asn1", "_session", "_messages", "_filter", "_controls", "_authentication", "schema"):
                importlib.import_module(f"{pkg}.{sub}")
            mods = {k: v for k, v in sys.modules.items() if k == pkg or k.startswith(pkg + ".")}
        finally:
            for k in [k for k in sys.modules if k == pkg or k.startswith(pkg + ".")]:
                del sys.modules[k]
            sys.modules.update(saved)
        return mods
    return importlib.import_module(pkg)
