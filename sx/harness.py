"""Harness context: one body runs in two modes.

 * sym  - on the shadow package with proxies; `require` is a solver query over the path condition.
 * real - on the genuine package with the concrete values of a model; `require` is a plain check.

The second mode is what replays counterexamples (nothing is reported that does not reproduce on
the unmodified package) and what validates every explored path against the implementation.
"""
from __future__ import annotations

import dataclasses
import enum
import traceback
import types
import z3

from . import core, values as V, text as T, shims

_proxy_int = (V.SInt, V.SBool)


class RealViolation(Exception):
    def __init__(self, label, detail=""):
        super().__init__(label)
        self.label = label
        self.detail = detail


# ---------------------------------------------------------------------- deep helpers
def is_enum(x):
    return isinstance(x, enum.Enum) or isinstance(x, shims.SEnumInt)


def deq(a, b):
    """Deep structural equality -> bool / SBool.  Classes are compared by name (shadow vs real)."""
    if a is b:
        return True
    if a is None or b is None:
        return False
    if is_enum(a) or is_enum(b):
        if is_enum(a) and is_enum(b):
            ca = a._cls.__name__ if isinstance(a, shims.SEnumInt) else type(a).__name__
            cb = b._cls.__name__ if isinstance(b, shims.SEnumInt) else type(b).__name__
            if ca != cb:
                return False
        va = a.value if is_enum(a) else a
        vb = b.value if is_enum(b) else b
        return deq(va, vb)
    if isinstance(a, (bool, V.SBool)) or isinstance(b, (bool, V.SBool)):
        if not (isinstance(a, (bool, V.SBool)) and isinstance(b, (bool, V.SBool))):
            return False
        return V.mk_bool(V.bterm(a) == V.bterm(b))
    if isinstance(a, (int, V.SInt)) and isinstance(b, (int, V.SInt)):
        r = a == b
        return r
    if T.is_text(a) and T.is_text(b):
        return V.seq_eq(T.citems(a), T.citems(b))
    if V.is_byteslike(a) and V.is_byteslike(b):
        return V.seq_eq(V.items_of(a), V.items_of(b))
    if isinstance(a, (list, tuple)) and isinstance(b, (list, tuple)):
        if len(a) != len(b):
            return False
        return V.sand(*[deq(x, y) for x, y in zip(a, b)])
    if isinstance(a, dict) and isinstance(b, dict):
        if list(a.keys()) != list(b.keys()):
            if set(a.keys()) != set(b.keys()):
                return False
        return V.sand(*[deq(a[k], b[k]) for k in a])
    if dataclasses.is_dataclass(a) and dataclasses.is_dataclass(b):
        if type(a).__name__ != type(b).__name__:
            return False
        fa = [f.name for f in dataclasses.fields(a) if f.compare]
        return V.sand(*[deq(getattr(a, n), getattr(b, n)) for n in fa])
    if isinstance(a, V.SSet) or isinstance(b, V.SSet):
        return V.SSet(a) == V.SSet(b)
    if type(a).__name__ != type(b).__name__:
        return False
    try:
        r = a == b
    except Exception:
        return False
    if isinstance(r, (bool, V.SBool)):
        return r
    return bool(r)


def conc(x, model):
    """Deep-convert proxies to concrete python values under a model (for observations/samples)."""

    def ev(t):
        return model.eval(t, model_completion=True)

    if isinstance(x, shims.SEnumInt):
        return (x._cls.__name__, ev(x.t).as_long())
    if isinstance(x, enum.Enum):
        return (type(x).__name__, conc(x.value, model))
    if isinstance(x, V.SInt):
        return ev(x.t).as_long()
    if isinstance(x, V.SBool):
        return z3.is_true(ev(x.t))
    if isinstance(x, (V.SBytes, V.SByteArray, V.SMemoryView)):
        return bytes(i if isinstance(i, int) else ev(i).as_long() for i in x._items())
    if isinstance(x, T.SStr):
        return "".join(chr(i if isinstance(i, int) else ev(i).as_long()) for i in x.items)
    if isinstance(x, V.SSet):
        return sorted(conc(m, model) for m in x.members)
    if isinstance(x, (bytearray, memoryview)):
        return bytes(x)
    if isinstance(x, (list, tuple)) and not hasattr(x, "_fields"):
        return [conc(i, model) for i in x]
    if isinstance(x, tuple):
        return [type(x).__name__] + [conc(i, model) for i in x]
    if isinstance(x, dict):
        return {conc(k, model): conc(v, model) for k, v in x.items()}
    if isinstance(x, (set, frozenset)):
        return sorted(conc(m, model) for m in x)
    if dataclasses.is_dataclass(x) and not isinstance(x, type):
        return (type(x).__name__, {f.name: conc(getattr(x, f.name), model) for f in dataclasses.fields(x)})
    if isinstance(x, BaseException):
        return ("exc", type(x).__name__)
    return x


def plain(x):
    """conc() for real-mode values (no model)."""
    return conc(x, None)


def jsonable(x):
    if isinstance(x, bytes):
        return {"hex": x.hex()}
    if isinstance(x, (list, tuple)):
        return [jsonable(i) for i in x]
    if isinstance(x, dict):
        return {str(k): jsonable(v) for k, v in x.items()}
    if isinstance(x, (int, str, bool, float)) or x is None:
        return x
    return repr(x)


def unjson(x):
    if isinstance(x, dict) and set(x.keys()) == {"hex"}:
        return bytes.fromhex(x["hex"])
    if isinstance(x, list):
        return [unjson(i) for i in x]
    if isinstance(x, dict):
        return {k: unjson(v) for k, v in x.items()}
    return x


def exc_site(e, src_marker="sansldap"):
    """innermost library frame of an exception: 'func' (line numbers left out on purpose)"""
    tb = e.__traceback__
    site = None
    while tb is not None:
        fn = tb.tb_frame.f_code.co_filename
        if src_marker in fn:
            site = tb.tb_frame.f_code.co_name
        tb = tb.tb_next
    return site or "?"


# ---------------------------------------------------------------------- library namespaces
class Lib:
    """Uniform access to the modules of the shadow or the real package."""

    def __init__(self, get_module, root):
        self.root = root
        self.asn1 = get_module("asn1")
        self.session = get_module("_session")
        self.messages = get_module("_messages")
        self.filter = get_module("_filter")
        self.controls = get_module("_controls")
        self.auth = get_module("_authentication")
        self.schema = get_module("schema")


# ---------------------------------------------------------------------- contexts
class SymCtx:
    mode = "sym"

    def __init__(self, lib):
        self.L = lib
        self.obs = []

    @property
    def eng(self):
        return core.cur

    def int(self, name, lo=None, hi=None):
        return V.sym_int(name, lo, hi)

    def bool(self, name):
        return V.sym_bool(name)

    def bytes(self, name, n):
        return V.sym_bytes(name, n)

    def bytearray(self, name, n):
        return V.sym_bytes(name, n, cls=V.SByteArray)

    def str(self, name, n, lo=0, hi=0x10FFFF, surrogates=False):
        return T.sym_str(name, n, lo, hi, surrogates)

    def const(self, name, value):
        self.eng.register_input(name, "const", value)
        return value

    def assume(self, cond):
        self.eng.assume(cond if isinstance(cond, bool) else V.bterm(cond))

    def require(self, cond, label, detail=None):
        return self.eng.require(cond if isinstance(cond, bool) else V.bterm(cond), label)

    def fail(self, label, detail=None):
        self.eng.require(False, label)

    def report(self, label, detail=None):
        """record a violation and keep going on this path (used for already-known clauses so that
        they do not mask the checks that follow)"""
        e = self.eng
        e.stats.obligations += 1
        e._violation(label, e.get_model())

    def observe(self, key, value):
        self.obs.append((key, value))

    def eq(self, a, b):
        return deq(a, b)

    def mk_bytearray(self, b):
        return V.SByteArray(V.items_of(b))

    def overwrite(self, ba, b):
        """caller reuses its buffer: same object, new content"""
        ba.items[:] = V.items_of(b)

    def text(self, x):
        return shims.sx_str(x)

    def tobytes(self, x):
        return shims.sx_bytes(x)

    def is_true(self, cond):
        """fork on a condition inside harness code"""
        return bool(cond)

    def ite(self, c, a, b):
        return V.site(c, a, b)

    def all(self, *cs):
        return V.sand(*cs)

    def any(self, *cs):
        return V.sor(*cs)

    def neg(self, c):
        return V.snot(c)

    def implies(self, a, b):
        return V.simplies(a, b)

    def ident(self, x):
        return x

    def fresh_lib(self):
        """a brand-new copy of the library (no module-level state shared with earlier runs)"""
        from . import loader

        old = getattr(self, "_fresh_sp", None)
        if old is not None:
            old.close()
        sp = loader.ShadowPackage()
        self._fresh_sp = sp
        return Lib(sp.module, sp.root_module())


class RealCtx:
    mode = "real"

    def __init__(self, lib, inputs):
        self.L = lib
        self.inputs = inputs
        self.obs = []
        self.failures = []

    def _get(self, name, default):
        if name not in self.inputs:
            return default
        return self.inputs[name]

    def int(self, name, lo=None, hi=None):
        return self._get(name, lo if lo is not None else 0)

    def bool(self, name):
        return self._get(name, False)

    def bytes(self, name, n):
        return self._get(name, bytes(n))

    def bytearray(self, name, n):
        return bytearray(self._get(name, bytes(n)))

    def str(self, name, n, lo=0, hi=0x10FFFF, surrogates=False):
        return self._get(name, chr(lo) * n)

    def const(self, name, value):
        return value

    def assume(self, cond):
        if not cond:
            raise core.PathAbort()

    def require(self, cond, label, detail=None):
        if not cond:
            self.failures.append((label, detail))
            raise RealViolation(label, detail)
        return True

    def fail(self, label, detail=None):
        self.failures.append((label, detail))
        raise RealViolation(label, detail)

    def report(self, label, detail=None):
        self.failures.append((label, detail))

    def observe(self, key, value):
        self.obs.append((key, value))

    def eq(self, a, b):
        return deq(a, b)

    def mk_bytearray(self, b):
        return bytearray(b)

    def overwrite(self, ba, b):
        ba[:] = b

    def text(self, x):
        return str(x)

    def tobytes(self, x):
        return bytes(x)

    def is_true(self, cond):
        return bool(cond)

    def ite(self, c, a, b):
        return a if c else b

    def all(self, *cs):
        return all(cs)

    def any(self, *cs):
        return any(cs)

    def neg(self, c):
        return not c

    def implies(self, a, b):
        return (not a) or bool(b)

    def ident(self, x):
        return x

    def fresh_lib(self):
        from . import loader

        mods = loader.load_real(fresh=True)
        return Lib(lambda n: mods[f"{loader.PKG}.{n}"], mods[loader.PKG])


def run_real(body, lib, shape, inputs):
    """Execute the harness body concretely.  -> (failures, observations, error-or-None)"""
    ctx = RealCtx(lib, inputs)
    # the genuine package runs under the interpreter's usual recursion limit (the symbolic run needs
    # a far higher one for the matcher and the term builder): recursion that grows with the input
    # shows up here as RecursionError, as it would for a user
    import sys

    depth, f = 0, sys._getframe()
    while f is not None:
        depth, f = depth + 1, f.f_back
    old = sys.getrecursionlimit()
    sys.setrecursionlimit(min(old, depth + 1000))
    try:
        body(ctx, shape)
    except RealViolation:
        return ctx.failures, ctx.obs, "stopped-at-violation"
    except core.PathAbort:
        return ctx.failures, ctx.obs, "assumption-failed"
    finally:
        sys.setrecursionlimit(old)
    return ctx.failures, ctx.obs, None
